#!/usr/bin/env python3
# Regenerates MANIFEST.json from checks/*.json + manifest_meta.json (kept by hand).
import json, os, subprocess
meta = json.load(open('/verif/manifest_meta.json'))
hooks_commits = subprocess.run(['git','-C','/repo','log','--format=%H %s'],capture_output=True,text=True).stdout.splitlines()
src = [l.split()[0] for l in hooks_commits if l.split(' ',1)[1].startswith('verif:')]
m = {
 "version": 1,
 "setup_cmd": "cd /verif/govc && GOFLAGS=-mod=mod GOPROXY=off GOSUMDB=off GOTOOLCHAIN=local go build -o /verif/bin/govc ./cmd/govc",
 "hooks": {
  "guard": "verif",
  "enable": "go build -tags verif: contracts live in comment-only files (verif_contracts*.go) behind //go:build verif; govc loads the packages with -tags=verif and reads the //@ lines",
  "baseline_off_cmd": "for m in . ./lib/go ./test/integration; do (cd /repo/$m && GOFLAGS=-mod=mod go test -json -vet=off -count=1 -timeout 25m ./...); done",
  "source_commits": src,
  "add_only": True
 },
 "engines": [{"name": "govc", "path": "/verif/govc", "serves_properties": sorted(meta['checks'].keys()), "kind_free_text": "contract-based deductive verifier for Go written for this task: go/ssa (NaiveForm) symbolic execution of the real functions under //@ contracts, loops cut at invariants, calls replaced by callee contracts, one SMT query per obligation raced on z3 5.1 / z3 4.8 / cvc5; structural (effect) obligations decided by an SSA walker"}],
 "checks": [],
 "not_applicable": meta['not_applicable'],
 "notes": meta.get('notes','')
}
import glob, re
for pid in sorted(meta['checks']):
    c = dict(meta['checks'][pid])
    spec = json.load(open('/verif/checks/%s.json' % pid))
    seeds = sorted(os.path.basename(os.path.dirname(x)) for x in glob.glob('/verif/seeded/%s-*/meta.json' % pid))
    # counts are taken from the check file, not from hand-written text
    txt = re.sub(r'\s*\d+ seeded mutants[^.]*\.', '', c['text'])
    txt += ' Corpora run by the thorough tier: %d must-fail mutants (each fails a named obligation) and %d behaviour-preserving edits that must stay silent; %d changes seeded by isolated sub-agents (%s) are each reported by the quick check.' % (
        len(spec.get('selftest', [])), len(spec.get('benign', [])), len(seeds), ', '.join(seeds))
    c['text'] = txt
    m['checks'].append({
      "property_id": pid,
      "quick_cmd": "./check %s quick" % pid,
      "thorough_cmd": "./check %s thorough" % pid,
      "evidence_file": "/verif/evidence/%s.json" % pid,
      "replay_cmd_template": "cat {path}",
      "engine": "govc",
      "level_claimed": {"category": "proof", "text": c['text'], "design_ref": c.get('design_ref','DESIGN.md section 4')},
      "level_note": c['level_note'],
      "technique": c['technique']
    })
have = set(meta['checks']) | {x['property_id'] for x in meta['not_applicable']}
for l in open('/verif/properties.jsonl'):
    pid = json.loads(l)['id']
    if pid not in have:
        m['not_applicable'].append({"property_id": pid, "reason": "not claimed yet: check under construction (plan in DESIGN.md section 4); nothing is asserted about this property by the committed machinery"})
json.dump(m, open('/verif/MANIFEST.json','w'), indent=1)
print("manifest: %d checks, %d n/a" % (len(m['checks']), len(m['not_applicable'])))
