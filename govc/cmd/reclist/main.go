package main

import (
	"fmt"
	"os"
	"strings"

	"govc/internal/eng"
)

func main() {
	p, err := eng.Load(os.Args[1], os.Args[2], nil, os.Args[3:]...)
	if err != nil {
		fmt.Println(err)
		os.Exit(2)
	}
	for _, fn := range p.RecursiveFuncs() {
		pos := p.Pos(fn.Pos())
		if strings.Contains(pos, "grammar.peg.go") {
			continue
		}
		n := 0
		for _, b := range fn.Blocks {
			n += len(b.Instrs)
		}
		fmt.Printf("%-70s %s instrs=%d\n", p.FuncKey(fn), pos, n)
	}
}
