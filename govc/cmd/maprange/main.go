package main

import (
	"fmt"
	"go/types"
	"os"

	"golang.org/x/tools/go/ssa"

	"govc/internal/eng"
)

func main() {
	p, err := eng.Load(os.Args[1], os.Args[2], nil, os.Args[3:]...)
	if err != nil {
		fmt.Println(err)
		os.Exit(2)
	}
	root := p.Funcs[os.Args[len(os.Args)-1]]
	_ = root
	reach := map[string]bool{}
	for _, k := range p.Closure([]string{"compiler.Compile"}, nil) {
		reach[k] = true
	}
	n := 0
	for _, fn := range p.All {
		for _, b := range fn.Blocks {
			for _, in := range b.Instrs {
				if r, ok := in.(*ssa.Range); ok {
					if _, ok := r.X.Type().Underlying().(*types.Map); ok {
						n++
						fmt.Printf("%-60s %s reachable=%v\n", p.FuncKey(fn), p.Pos(r.Pos()), reach[p.FuncKey(fn)])
					}
				}
			}
		}
	}
	fmt.Println(n, "map range sites;", len(reach), "functions reachable from compiler.Compile")
}
