package main

import (
	"bytes"
	"context"
	"encoding/json"
	"fmt"
	"go/ast"
	"go/parser"
	"go/printer"
	"go/token"
	"os"
	"os/exec"
	"path/filepath"
	"sort"
	"strconv"
	"strings"
	"time"

	"govc/internal/eng"
)

// govc mutate <id> [max]: a mechanical mutation sweep over the functions a check names. Every mutant is a
// single small syntactic change (relational operator, && / ||, + / -, small integer literal +-1, negated
// condition, deleted call or assignment statement) inside one of those functions. For each mutant that
// still type-checks the quick check is run through the package overlay (nothing is written to /repo); a
// mutant the check does not report is then run against the package's own tests. What survives both is
// written to /verif/mutation/<id>.json for inspection: it is either an equivalent mutant or a hole.
type mutant struct {
	File string `json:"file"`
	Func string `json:"func"`
	Line int    `json:"line"`
	Desc string `json:"desc"`
	src  []byte
}

func runMutate(args []string) int {
	if len(args) < 1 {
		fmt.Fprintln(os.Stderr, "usage: govc mutate <id> [max mutants]")
		return 2
	}
	id := args[0]
	max := 100000
	if len(args) > 1 {
		max, _ = strconv.Atoi(args[1])
	}
	data, err := os.ReadFile(filepath.Join(verifRoot, "checks", id+".json"))
	if err != nil {
		fmt.Fprintln(os.Stderr, err)
		return 2
	}
	var spec CheckSpec
	if err := json.Unmarshal(data, &spec); err != nil {
		fmt.Fprintln(os.Stderr, err)
		return 2
	}
	// baseline run: find the source position of every named function
	base, err := executeSpec(&spec, "quick", nil)
	if err != nil {
		fmt.Fprintln(os.Stderr, "baseline:", err)
		return 2
	}
	os.RemoveAll(base.Work)
	type target struct{ file, name, recv string }
	targets := map[string][]target{}
	names := map[string]bool{}
	for _, f := range spec.Functions {
		names[f.Name] = true
	}
	for _, a := range spec.Analyses {
		for _, f := range a.Functions {
			names[f] = true
		}
	}
	for _, p := range base.Progs {
		for k := range names {
			fn := p.Funcs[k]
			if fn == nil || fn.Syntax() == nil {
				continue
			}
			pos := p.Prog.Fset.Position(fn.Pos())
			t := target{file: pos.Filename, name: fn.Name()}
			if r := fn.Signature.Recv(); r != nil {
				t.recv = r.Type().String()
			}
			if strings.Contains(fn.Name(), "$") {
				continue
			}
			targets[pos.Filename] = append(targets[pos.Filename], t)
		}
	}
	var muts []mutant
	var files []string
	for f := range targets {
		files = append(files, f)
	}
	sort.Strings(files)
	for _, file := range files {
		want := map[string]bool{}
		for _, t := range targets[file] {
			want[t.name] = true
		}
		muts = append(muts, mutantsOf(file, want)...)
	}
	if len(muts) > max {
		// spread evenly
		step := float64(len(muts)) / float64(max)
		var pick []mutant
		for i := 0; i < max; i++ {
			pick = append(pick, muts[int(float64(i)*step)])
		}
		muts = pick
	}
	fmt.Printf("mutation sweep %s: %d mutants in %d files\n", id, len(muts), len(files))
	type outcome struct {
		mutant
		Result string `json:"result"` // caught | killed-by-tests | SURVIVED | does-not-compile
		By     string `json:"by,omitempty"`
	}
	var outs []outcome
	counts := map[string]int{}
	for i, m := range muts {
		o := outcome{mutant: m}
		rr, err := executeSpec(&spec, "quick", map[string][]byte{m.File: m.src})
		if err != nil {
			o.Result = "does-not-compile"
		} else {
			for _, ob := range rr.Obls {
				if ob.Result != "discharged" {
					o.Result, o.By = "caught", ob.Name
					break
				}
			}
			if o.Result == "" {
				for _, f := range rr.Funcs {
					if f.Unsupported != "" || !f.CoverOK {
						o.Result, o.By = "caught", f.Key+"/within-reach"
					}
				}
			}
			if o.Result == "" && len(rr.Missing) > 0 {
				o.Result, o.By = "caught", rr.Missing[0]
			}
			os.RemoveAll(rr.Work)
		}
		if o.Result == "" {
			if testsPass(m) {
				o.Result = "SURVIVED"
			} else {
				o.Result = "killed-by-tests"
			}
		}
		counts[o.Result]++
		outs = append(outs, o)
		if o.Result == "SURVIVED" {
			fmt.Printf("  SURVIVED %s:%d %s (%s)\n", filepath.Base(m.File), m.Line, m.Desc, m.Func)
		}
		if (i+1)%25 == 0 {
			fmt.Printf("  .. %d/%d %v\n", i+1, len(muts), counts)
		}
	}
	os.MkdirAll(filepath.Join(verifRoot, "mutation"), 0o755)
	rep := map[string]interface{}{"property": id, "mutants": len(muts), "counts": counts, "survivors": []outcome{}, "generated": time.Now().Format(time.RFC3339)}
	var surv []outcome
	for _, o := range outs {
		if o.Result == "SURVIVED" {
			surv = append(surv, o)
		}
	}
	rep["survivors"] = surv
	b, _ := json.MarshalIndent(rep, "", " ")
	os.WriteFile(filepath.Join(verifRoot, "mutation", id+".json"), b, 0o644)
	fmt.Printf("mutation sweep %s: %v\n", id, counts)
	return 0
}

// testsPass runs the package's own tests with the mutated file overlaid.
func testsPass(m mutant) bool {
	dir := filepath.Dir(m.File)
	tmp, _ := os.MkdirTemp("", "govc-mut-")
	defer os.RemoveAll(tmp)
	mf := filepath.Join(tmp, "mutated.go")
	os.WriteFile(mf, m.src, 0o644)
	ov, _ := json.Marshal(map[string]interface{}{"Replace": map[string]string{m.File: mf}})
	ovf := filepath.Join(tmp, "ov.json")
	os.WriteFile(ovf, ov, 0o644)
	// tests of the package and, for the compiler, of the packages that exercise it
	pkgs := []string{"."}
	if strings.Contains(dir, "/compiler/") || strings.HasSuffix(dir, "/compiler") {
		dir = "/repo"
		pkgs = []string{"./compiler/..."}
	}
	for attempt := 0; attempt < 2; attempt++ {
		ctx, cancel := context.WithTimeout(context.Background(), 300*time.Second)
		cmd := exec.CommandContext(ctx, "go", append([]string{"test", "-overlay", ovf, "-vet=off", "-count=1", "-timeout", "240s"}, pkgs...)...)
		cmd.Dir = dir
		cmd.Env = append(os.Environ(), "GOFLAGS=-mod=mod", "GOPROXY=off", "GOSUMDB=off", "GOTOOLCHAIN=local")
		var out bytes.Buffer
		cmd.Stdout, cmd.Stderr = &out, &out
		err := cmd.Run()
		cancel()
		if err == nil {
			return true
		}
		if !strings.Contains(out.String(), "Unable to start NATS Server") {
			return false
		}
	}
	return false
}

func mutantsOf(file string, want map[string]bool) []mutant {
	src, err := os.ReadFile(file)
	if err != nil {
		return nil
	}
	fset := token.NewFileSet()
	var out []mutant
	emit := func(f *ast.File, fn string, pos token.Pos, desc string) {
		var b bytes.Buffer
		if err := printer.Fprint(&b, fset, f); err != nil {
			return
		}
		out = append(out, mutant{File: file, Func: fn, Line: fset.Position(pos).Line, Desc: desc, src: append([]byte{}, b.Bytes()...)})
	}
	// count mutation points first, then re-parse for each and apply the k-th
	type point struct {
		apply func() (undo func())
		pos   token.Pos
		desc  string
		fn    string
	}
	parse := func() (*ast.File, []point) {
		f, err := parser.ParseFile(fset, file, src, parser.ParseComments)
		if err != nil {
			return nil, nil
		}
		var pts []point
		for _, d := range f.Decls {
			fd, ok := d.(*ast.FuncDecl)
			if !ok || fd.Body == nil || !want[fd.Name.Name] {
				continue
			}
			fname := fd.Name.Name
			swap := map[token.Token]token.Token{token.LSS: token.LEQ, token.LEQ: token.LSS, token.GTR: token.GEQ, token.GEQ: token.GTR, token.EQL: token.NEQ, token.NEQ: token.EQL, token.LAND: token.LOR, token.LOR: token.LAND, token.ADD: token.SUB, token.SUB: token.ADD}
			ast.Inspect(fd.Body, func(n ast.Node) bool {
				switch x := n.(type) {
				case *ast.BinaryExpr:
					if to, ok := swap[x.Op]; ok {
						// string concatenation cannot become subtraction
						if x.Op == token.ADD {
							if bl, isLit := x.X.(*ast.BasicLit); isLit && bl.Kind == token.STRING {
								return true
							}
							if bl, isLit := x.Y.(*ast.BasicLit); isLit && bl.Kind == token.STRING {
								return true
							}
						}
						from := x.Op
						pts = append(pts, point{func() func() { x.Op = to; return func() { x.Op = from } }, x.OpPos, fmt.Sprintf("%s -> %s", from, to), fname})
					}
				case *ast.BasicLit:
					if x.Kind == token.INT {
						if v, err := strconv.Atoi(x.Value); err == nil && v >= 0 && v <= 16 {
							old := x.Value
							pts = append(pts, point{func() func() { x.Value = strconv.Itoa(v + 1); return func() { x.Value = old } }, x.Pos(), fmt.Sprintf("%d -> %d", v, v+1), fname})
							if v > 0 {
								pts = append(pts, point{func() func() { x.Value = strconv.Itoa(v - 1); return func() { x.Value = old } }, x.Pos(), fmt.Sprintf("%d -> %d", v, v-1), fname})
							}
						}
					}
				case *ast.IfStmt:
					old := x.Cond
					pts = append(pts, point{func() func() {
						x.Cond = &ast.UnaryExpr{Op: token.NOT, X: &ast.ParenExpr{X: old}}
						return func() { x.Cond = old }
					}, x.Cond.Pos(), "condition negated", fname})
				case *ast.BlockStmt:
					for i, st := range x.List {
						i, st := i, st
						del := false
						what := ""
						switch y := st.(type) {
						case *ast.ExprStmt:
							if _, isCall := y.X.(*ast.CallExpr); isCall {
								del, what = true, "call statement deleted"
							}
						case *ast.IncDecStmt:
							del, what = true, "increment deleted"
						case *ast.AssignStmt:
							if y.Tok == token.ASSIGN || y.Tok == token.ADD_ASSIGN || y.Tok == token.SUB_ASSIGN {
								// keep definitions (:=): deleting them rarely compiles
								onlyBlank := true
								for _, l := range y.Lhs {
									if id, ok := l.(*ast.Ident); !ok || id.Name != "_" {
										onlyBlank = false
									}
								}
								if !onlyBlank {
									del, what = true, "assignment deleted"
								}
							}
						case *ast.DeferStmt:
							del, what = true, "defer deleted"
						}
						if del {
							blk := x
							pts = append(pts, point{func() func() {
								blk.List[i] = &ast.EmptyStmt{Semicolon: st.Pos(), Implicit: false}
								return func() { blk.List[i] = st }
							}, st.Pos(), what, fname})
						}
					}
				}
				return true
			})
		}
		return f, pts
	}
	f, pts := parse()
	if f == nil {
		return nil
	}
	for _, p := range pts {
		undo := p.apply()
		emit(f, p.fn, p.pos, p.desc)
		undo()
	}
	_ = eng.Prelude
	return out
}
