package main

import (
	"encoding/json"
	"fmt"
	"os"
	"path/filepath"
	"sort"
	"strconv"
	"strings"
	"sync"
	"time"

	"govc/internal/eng"
)

// CheckSpec is /verif/checks/<id>.json.
type CheckSpec struct {
	Property string `json:"property"`
	Modules  []struct {
		Dir      string   `json:"dir"`
		Prefix   string   `json:"prefix"`
		Patterns []string `json:"patterns"`
	} `json:"modules"`
	Functions []FuncSpec `json:"functions"`
	// Kinds restricts which obligation kinds are claimed for this property (empty = all generated).
	Kinds       []string          `json:"kinds"`
	Config      eng.CheckConfig   `json:"config"`
	Analyses    []eng.AnalysisSpec `json:"analyses"`
	Unregistered []struct {
		Pattern string `json:"pattern"`
		Reason  string `json:"reason"`
	} `json:"unregistered"`
	Assumptions []string `json:"assumptions"`
	Undecided   []string `json:"undecided_clauses"`
	TimeoutS    int      `json:"timeout_s"`
	ThoroughTimeoutS int `json:"thorough_timeout_s"`
	ThoroughFunctions []FuncSpec `json:"thorough_functions"`
	Selftest    []SelftestCase `json:"selftest"`
	Benign      []SelftestCase `json:"benign"` // behaviour-preserving edits: no obligation may fail
	// Closure adds every own function statically reachable from Functions (zero-annotation sweep).
	Closure     bool     `json:"closure"`
	ClosureSkip []string `json:"closure_skip"`
}

type FuncSpec struct {
	Name     string   `json:"name"`
	Kinds    []string `json:"kinds,omitempty"`
	StrBytes bool     `json:"strbytes,omitempty"`
	Inline   int      `json:"inline,omitempty"`
	Why      string   `json:"why,omitempty"`
}

// SelftestCase is a deliberate break applied through the package overlay; Expect must fail.
type SelftestCase struct {
	Name    string `json:"name"`
	File    string `json:"file"`    // path under /repo
	Old     string `json:"old"`     // exact text to replace
	New     string `json:"new"`
	Expect  string `json:"expect"`  // obligation name (prefix) that must not be discharged
	More    []struct {
		Old string `json:"old"`
		New string `json:"new"`
	} `json:"more"` // further replacements in the same file
}

type Finding struct {
	Status   string // known | fixed
	Property string
	Obl      string
	Text     string
}

func readFindings(path string) []Finding {
	data, err := os.ReadFile(path)
	if err != nil {
		return nil
	}
	var out []Finding
	for _, line := range strings.Split(string(data), "\n") {
		line = strings.TrimSpace(line)
		if line == "" || strings.HasPrefix(line, "#") {
			continue
		}
		f := Finding{}
		switch {
		case strings.HasPrefix(line, "known:"):
			f.Status = "known"
			line = strings.TrimSpace(line[6:])
		case strings.HasPrefix(line, "fixed:"):
			f.Status = "fixed"
			line = strings.TrimSpace(line[6:])
		default:
			continue
		}
		for _, tok := range strings.Fields(line) {
			if strings.HasPrefix(tok, "property=") {
				f.Property = tok[9:]
			}
			if strings.HasPrefix(tok, "obligation=") {
				f.Obl = tok[11:]
			}
		}
		f.Text = line
		out = append(out, f)
	}
	return out
}

const verifRoot = "/verif"

func runCheck(args []string) int {
	if len(args) < 2 || args[0] != "check" && args[0] != "selftest" {
		fmt.Fprintln(os.Stderr, "usage: govc check <id> <quick|thorough> | govc selftest <id>")
		return 2
	}
	mode := args[0]
	id := args[1]
	tier := "quick"
	if len(args) > 2 {
		tier = args[2]
	}
	if t := os.Getenv("VERIF_TIER"); t == "thorough" || t == "quick" {
		if len(args) <= 2 {
			tier = t
		}
	}
	seed := 0
	if sd := os.Getenv("VERIF_SEED"); sd != "" {
		seed, _ = strconv.Atoi(sd)
	}
	data, err := os.ReadFile(filepath.Join(verifRoot, "checks", id+".json"))
	if err != nil {
		fmt.Fprintln(os.Stderr, err)
		return 2
	}
	var spec CheckSpec
	if err := json.Unmarshal(data, &spec); err != nil {
		fmt.Fprintln(os.Stderr, "bad check spec:", err)
		return 2
	}
	if mode == "selftest" {
		if len(args) > 2 {
			// govc selftest <id> <substring>: only the corpus entries whose name contains it
			var st, bn []SelftestCase
			for _, tc := range spec.Selftest {
				if strings.Contains(tc.Name, args[2]) {
					st = append(st, tc)
				}
			}
			for _, tc := range spec.Benign {
				if strings.Contains(tc.Name, args[2]) {
					bn = append(bn, tc)
				}
			}
			spec.Selftest, spec.Benign = st, bn
		}
		return runSelftest(&spec)
	}
	t0 := time.Now()
	eng.CrossCheck = tier == "thorough"
	run, err := executeSpec(&spec, tier, nil)
	eng.CrossCheck = false
	if err != nil {
		fmt.Fprintln(os.Stderr, "ENGINE-ERROR:", err)
		return 2
	}
	code := report(&spec, run, tier, seed, t0)
	if tier == "thorough" && code == 0 && len(spec.Selftest) > 0 {
		if rc := runSelftest(&spec); rc != 0 {
			return rc
		}
	}
	return code
}

type runResult struct {
	Funcs    []*eng.FuncResult
	Obls     []*eng.OblResult // claimed (registered) obligations
	Unreg    []*eng.OblResult
	Analyses []*eng.AnalysisResult
	Contracts *eng.Contracts
	Progs    []*eng.Program
	Work     string
	Missing  []string
	Removed  []string // unexported functions named by the check that no longer exist
	RebindNotes []string // renamed fields / functions the contracts were rebound to
}

func kindAllowed(kinds []string, k string) bool {
	if len(kinds) == 0 {
		return true
	}
	// obligations other proofs of the same function rest on are never optional: an invariant that is
	// assumed after the loop head must be established and kept, a callee's postcondition may only be
	// used where its precondition was shown
	switch k {
	case "inv-init", "inv-keep", "callee-pre", "lock-released":
		return true
	}
	for _, x := range kinds {
		if x == k {
			return true
		}
	}
	return false
}

func executeSpec(spec *CheckSpec, tier string, overlay map[string][]byte) (*runResult, error) {
	work, err := os.MkdirTemp("", "govc-"+spec.Property+"-")
	if err != nil {
		return nil, err
	}
	rr := &runResult{Work: work}
	timeout := time.Duration(spec.TimeoutS) * time.Second
	if timeout == 0 {
		timeout = 10 * time.Second
	}
	if tier == "thorough" {
		timeout = time.Duration(spec.ThoroughTimeoutS) * time.Second
		if timeout == 0 {
			timeout = 60 * time.Second
		}
	}
	var dirs []string
	for _, m := range spec.Modules {
		dirs = append(dirs, m.Dir)
	}
	files := loadContractFiles(append(dirs, filepath.Join(verifRoot, "specs"))...)
	for path, data := range overlay {
		b := filepath.Base(path)
		if strings.HasPrefix(b, "verif_contracts") {
			files[path] = string(data)
		}
	}
	cs, err := eng.ParseContracts(files)
	if err != nil {
		return nil, err
	}
	rr.Contracts = cs
	for _, m := range spec.Modules {
		pats := m.Patterns
		if len(pats) == 0 {
			pats = []string{"./..."}
		}
		p, err := eng.Load(m.Dir, m.Prefix, overlay, pats...)
		if err != nil {
			return nil, err
		}
		rr.Progs = append(rr.Progs, p)
	}
	// contracts are rebound to renamed struct fields and renamed unexported functions (by position)
	if data, err := os.ReadFile(filepath.Join(verifRoot, "specs", "fields.spec")); err == nil {
		alias, notes := eng.ComputeFieldAliases(eng.ParseFieldsSpec(string(data)), rr.Progs)
		eng.FieldAlias = alias
		rr.RebindNotes = append(rr.RebindNotes, notes...)
		tr := func(m map[string]bool) {
			for k := range m {
				if n, ok := alias[k]; ok {
					delete(m, k)
					m[k[:strings.LastIndex(k, ".")+1]+n] = true
				}
			}
		}
		tr(cs.Immutable)
		for k, v := range cs.Containers {
			if n, ok := alias[k]; ok {
				delete(cs.Containers, k)
				cs.Containers[k[:strings.LastIndex(k, ".")+1]+n] = v
			}
		}
		// field keys named in the check file (analysis lists and arguments)
		fixKey := func(k string) string {
			head, tail := k, ""
			if i := strings.Index(k, ":"); i >= 0 {
				head, tail = k[:i], k[i:]
			}
			if n, ok := alias[head]; ok {
				return head[:strings.LastIndex(head, ".")+1] + n + tail
			}
			return k
		}
		for ai := range spec.Analyses {
			for li, it := range spec.Analyses[ai].List {
				spec.Analyses[ai].List[li] = fixKey(it)
			}
			for k, v := range spec.Analyses[ai].Args {
				parts := strings.Split(v, ",")
				for pi := range parts {
					parts[pi] = fixKey(strings.TrimSpace(parts[pi]))
				}
				if nv := strings.Join(parts, ","); strings.ReplaceAll(v, " ", "") == strings.ReplaceAll(nv, " ", "") {
					continue
				} else {
					spec.Analyses[ai].Args[k] = nv
				}
			}
		}
		for _, g := range cs.Guards {
			if n, ok := alias[g.Struct+"."+g.Lock]; ok {
				g.Lock = n
			}
			for i, f := range g.Fields {
				if n, ok := alias[g.Struct+"."+f]; ok {
					g.Fields[i] = n
				}
			}
		}
	}
	{
		specJSON, _ := json.Marshal(spec)
		allText := string(specJSON)
		for _, t := range files {
			allText += "\n" + t
		}
		var keys []string
		arity := map[string]int{}
		seenKey := map[string]bool{}
		addKey := func(k string) {
			if !seenKey[k] {
				seenKey[k] = true
				keys = append(keys, k)
			}
		}
		for k, ct := range cs.Funcs {
			if !ct.Flag("iface") {
				addKey(k)
				arity[k] = len(ct.ParamNames)
			}
		}
		for k, ct := range cs.Names {
			addKey(k)
			arity[k] = len(ct.ParamNames)
		}
		for _, f := range spec.Functions {
			addKey(f.Name)
		}
		for _, a := range spec.Analyses {
			for _, f := range a.Functions {
				addKey(f)
			}
		}
		_ = arity
		_ = allText
		recorded := map[string]string{}
		if data, err := os.ReadFile(filepath.Join(verifRoot, "specs", "funcs.spec")); err == nil {
			recorded = eng.ParseSigsSpec(string(data))
		}
		ren, notes := eng.ComputeFuncRenames(keys, recorded, rr.Progs)
		if len(ren) > 0 {
			rr.RebindNotes = append(rr.RebindNotes, notes...)
			for path, t := range files {
				for o, n := range ren {
					t = eng.ReplaceKey(t, o, n)
				}
				files[path] = t
			}
			cs2, err := eng.ParseContracts(files)
			if err != nil {
				return nil, err
			}
			for nk := range eng.DroppedReceiver {
				if ct := cs2.Funcs[nk]; ct != nil && len(ct.ParamNames) > 0 {
					ct.ParamNames = ct.ParamNames[1:]
				}
				if ct := cs2.Names[nk]; ct != nil && len(ct.ParamNames) > 0 {
					ct.ParamNames = ct.ParamNames[1:]
				}
			}
			cs2.Immutable, cs2.Containers = cs.Immutable, cs.Containers
			for i, g := range cs2.Guards {
				if i < len(cs.Guards) {
					g.Lock, g.Fields = cs.Guards[i].Lock, cs.Guards[i].Fields
				}
			}
			cs = cs2
			rr.Contracts = cs
			txt := string(specJSON)
			for o, n := range ren {
				txt = eng.ReplaceKey(txt, o, n)
			}
			var spec2 CheckSpec
			if err := json.Unmarshal([]byte(txt), &spec2); err == nil {
				*spec = spec2
			}
		}
	}
	fns := append([]FuncSpec{}, spec.Functions...)
	if tier == "thorough" {
		fns = append(fns, spec.ThoroughFunctions...)
	}
	if spec.Closure {
		have := map[string]bool{}
		var roots []string
		for _, fs := range fns {
			have[fs.Name] = true
			roots = append(roots, fs.Name)
		}
		skipSet := map[string]bool{}
		for _, k := range spec.ClosureSkip {
			skipSet[k] = true
		}
		for _, p := range rr.Progs {
			for _, k := range p.Closure(roots, func(key string) bool {
				if skipSet[key] {
					return true
				}
				ct := cs.Funcs[key]
				return ct != nil && ct.Flag("trusted")
			}) {
				if !have[k] && !skipSet[k] {
					if ct := cs.Funcs[k]; ct != nil && ct.Flag("trusted") {
						continue
					}
					if cs.Funcs[k] == nil && eng.InlinedEverywhere(p, p.Funcs[k]) {
						continue // verified inside each caller
					}
					have[k] = true
					fns = append(fns, FuncSpec{Name: k, Why: "reachable from the listed functions"})
				}
			}
		}
	}
	type job struct {
		fs FuncSpec
		p  *eng.Program
	}
	var jobs []job
	for _, fs := range fns {
		if ct := cs.Funcs[fs.Name]; ct != nil && ct.Flag("trusted") {
			// an assumed contract: used at call sites, never verified (listed with the external specs)
			continue
		}
		var found *eng.Program
		for _, p := range rr.Progs {
			if p.Funcs[fs.Name] != nil {
				found = p
			}
		}
		if found == nil {
			if unexportedFunc(fs.Name) {
				// an internal helper that no longer exists (inlined into its callers, merged, renamed):
				// not a violation in itself - what it did is now verified as part of its callers, whose
				// own contracts still have to hold
				rr.Removed = append(rr.Removed, fs.Name)
				continue
			}
			rr.Missing = append(rr.Missing, fs.Name)
			continue
		}
		jobs = append(jobs, job{fs, found})
	}
	results := make([]*eng.FuncResult, len(jobs))
	var wg sync.WaitGroup
	sem := make(chan struct{}, 8)
	for i, j := range jobs {
		wg.Add(1)
		go func(i int, j job) {
			defer wg.Done()
			sem <- struct{}{}
			defer func() { <-sem }()
			cfg := spec.Config
			cfg.Safety = true
			if j.fs.StrBytes {
				cfg.StrBytes = true
			}
			if j.fs.Inline > 0 {
				cfg.InlineDepth = j.fs.Inline
			}
			results[i] = eng.VerifyFunc(j.p, cs, j.p.Funcs[j.fs.Name], &cfg, work, timeout)
		}(i, j)
	}
	wg.Wait()
	for i, r := range results {
		rr.Funcs = append(rr.Funcs, r)
		kinds := jobs[i].fs.Kinds
		if len(kinds) == 0 {
			kinds = spec.Kinds
		}
		for _, o := range r.Obls {
			if !kindAllowed(kinds, o.Kind) {
				continue
			}
			unreg := false
			for _, u := range spec.Unregistered {
				if ok, _ := filepath.Match(u.Pattern, o.Name); ok || strings.HasPrefix(o.Name, u.Pattern) {
					unreg = true
				}
			}
			if unreg {
				rr.Unreg = append(rr.Unreg, o)
			} else {
				rr.Obls = append(rr.Obls, o)
			}
		}
	}
	for _, as := range spec.Analyses {
		if as.Tier == "thorough" && tier != "thorough" {
			continue
		}
		if len(rr.Removed) > 0 {
			var keep []string
			for _, f := range as.Functions {
				gone := false
				for _, r := range rr.Removed {
					if r == f {
						gone = true
					}
				}
				if !gone {
					keep = append(keep, f)
				}
			}
			as.Functions = keep
		}
		ar := eng.RunAnalysis(as, rr.Progs, cs, rr.Funcs, work, timeout)
		rr.Analyses = append(rr.Analyses, ar)
		for _, o := range ar.Obls {
			unreg := false
			for _, u := range spec.Unregistered {
				if ok, _ := filepath.Match(u.Pattern, o.Name); ok || strings.HasPrefix(o.Name, u.Pattern) {
					unreg = true
				}
			}
			if unreg {
				rr.Unreg = append(rr.Unreg, o)
			} else {
				rr.Obls = append(rr.Obls, o)
			}
		}
	}
	return rr, nil
}

func report(spec *CheckSpec, rr *runResult, tier string, seed int, t0 time.Time) int {
	id := spec.Property
	findings := readFindings(filepath.Join(verifRoot, "known_findings.txt"))
	known := map[string]Finding{}
	for _, f := range findings {
		if f.Status == "known" && f.Property == id {
			known[f.Obl] = f
		}
	}
	replayDir := filepath.Join(verifRoot, "replays", id)
	os.MkdirAll(replayDir, 0o755)
	violations := 0
	var lines []string
	discharged := 0
	backends := map[string]int{}
	var solverMs int64
	var samples []interface{}
	for _, o := range rr.Obls {
		solverMs += o.Ms
		if o.Result == "discharged" {
			discharged++
			for _, b := range strings.Split(o.Backend, ",") {
				backends[b]++
			}
			if len(samples) < 12 {
				samples = append(samples, o)
			}
			continue
		}
		if kf, ok := known[o.Name]; ok {
			lines = append(lines, fmt.Sprintf("KNOWN-FINDING: property=%s %s", id, kf.Text))
			continue
		}
		violations++
		path := filepath.Join(replayDir, sanitizeFile(o.Name)+".txt")
		suffix := writeReplay(rr, o, path)
		lines = append(lines, fmt.Sprintf("VIOLATION property=%s replay=%s obligation=%s %s%s", id, path, o.Name, o.Why, suffix))
	}
	var outside []string
	var notes []string
	noteSet := map[string]bool{}
	var fnames []string
	covers := 0
	for _, f := range rr.Funcs {
		fnames = append(fnames, f.Key)
		if f.Unsupported != "" {
			outside = append(outside, f.Key+": "+f.Unsupported)
			violations++
			path := filepath.Join(replayDir, sanitizeFile(f.Key)+".outside.txt")
			os.WriteFile(path, []byte("function under contract is outside the verifier's reach on this tree: "+f.Unsupported+"\n"), 0o644)
			lines = append(lines, fmt.Sprintf("VIOLATION property=%s replay=%s obligation=%s/within-reach function can no longer be translated: %s no-failing-input-found", id, path, f.Key, f.Unsupported))
		} else if !f.CoverOK {
			violations++
			path := filepath.Join(replayDir, sanitizeFile(f.Key)+".vacuous.txt")
			os.WriteFile(path, []byte("no feasible path reaches a return: contract or code is contradictory\n"), 0o644)
			lines = append(lines, fmt.Sprintf("VIOLATION property=%s replay=%s obligation=%s/cover no feasible path to any return (vacuous proof) no-failing-input-found", id, path, f.Key))
		} else {
			covers++
		}
		for _, n := range f.Notes {
			if !noteSet[n] {
				noteSet[n] = true
				notes = append(notes, n)
			}
		}
	}
	for _, n := range rr.RebindNotes {
		notes = append(notes, "rebound: "+n)
		fmt.Printf("NOTE property=%s %s\n", id, n)
	}
	for _, m := range rr.Removed {
		notes = append(notes, "helper "+m+" named by the check no longer exists: its obligations are decided inside its callers")
		fmt.Printf("NOTE property=%s helper %s no longer exists; its callers are verified with its former body in place\n", id, m)
	}
	for _, m := range rr.Missing {
		violations++
		path := filepath.Join(replayDir, sanitizeFile(m)+".missing.txt")
		os.WriteFile(path, []byte("function under contract not found in the tree: "+m+"\n"), 0o644)
		lines = append(lines, fmt.Sprintf("VIOLATION property=%s replay=%s obligation=%s/bound contract target no longer exists no-failing-input-found", id, path, m))
	}
	sort.Strings(notes)
	var unreg []map[string]string
	for _, o := range rr.Unreg {
		unreg = append(unreg, map[string]string{"name": o.Name, "result": o.Result, "why": o.Why})
	}
	var analyses []map[string]interface{}
	for _, a := range rr.Analyses {
		analyses = append(analyses, map[string]interface{}{"name": a.Name, "summary": a.Summary, "details": a.Details})
	}
	assumptions := append([]string{}, spec.Assumptions...)
	assumptions = append(assumptions,
		"integers are mathematical Ints with Go's wrap-around applied at every typed operation and conversion (not idealised)",
		"the SSA-to-SMT translator (govc), go/ssa (x/tools v0.29.0), z3 4.8.12 / z3 5.1.0 / cvc5 1.0.3 are trusted",
		"heap exhaustion, stack depth (other than through decreases clauses), scheduling and real time are not modelled",
		"recover paths are not followed")
	verifiedSet := map[string]bool{}
	for _, f := range rr.Funcs {
		if f.Unsupported == "" {
			verifiedSet[f.Key] = true
		}
	}
	// contracts relied on at call sites: verified here, verified by another check, or assumed
	otherVerified := map[string]string{}
	if evs, _ := filepath.Glob(filepath.Join(verifRoot, "evidence", "*.json")); len(evs) > 0 {
		for _, evf := range evs {
			if filepath.Base(evf) == id+".json" {
				continue
			}
			var other struct {
				Coverage struct {
					Funcs []string `json:"functions_under_contract"`
				} `json:"coverage"`
			}
			if data, err := os.ReadFile(evf); err == nil && json.Unmarshal(data, &other) == nil {
				for _, f := range other.Coverage.Funcs {
					otherVerified[f] = strings.TrimSuffix(filepath.Base(evf), ".json")
				}
			}
		}
	}
	var usedHere, usedOther, usedAssumed []string
	for _, n := range notes {
		if !strings.HasPrefix(n, "contract used at a call site: ") {
			continue
		}
		k := strings.TrimPrefix(n, "contract used at a call site: ")
		ct := rr.Contracts.Funcs[k]
		switch {
		case verifiedSet[k]:
			usedHere = append(usedHere, k)
		case ct != nil && (ct.Flag("trusted") || !strings.HasPrefix(ct.File, "/repo")):
			usedAssumed = append(usedAssumed, k+" (trusted: "+filepath.Base(ct.File)+")")
		case otherVerified[k] != "":
			usedOther = append(usedOther, k+" ("+otherVerified[k]+")")
		default:
			usedAssumed = append(usedAssumed, k+" (contract in "+filepath.Base(ct.File)+", verified by no check)")
		}
	}
	for _, n := range notes {
		if strings.HasPrefix(n, "contract used at a call site: ") {
			continue
		}
		if strings.HasPrefix(n, "uncontracted callee ") {
			k := strings.SplitN(strings.TrimPrefix(n, "uncontracted callee "), ":", 2)[0]
			if verifiedSet[k] {
				continue // verified on its own in this run; callers use no facts about it
			}
		}
		assumptions = append(assumptions, "engine note: "+n)
	}
	trusted := []string{"Go toolchain 1.23 + golang.org/x/tools v0.29.0 go/ssa (NaiveForm)", "govc translator /verif/govc", "SMT solvers z3-new 5.1.0, z3 4.8.12, cvc5 1.0.3 (first unsat wins; any sat is a failure)", "external contracts /verif/specs/external.spec", "hand-coded external specs: " + strings.Join(eng.TrustedSpecs, " | ")}
	ev := map[string]interface{}{
		"property_id": id,
		"tier":        tier,
		"seed":        seed,
		"level":       "proof",
		"coverage": map[string]interface{}{
			"obligations":              len(rr.Obls),
			"discharged":               discharged,
			"checker_cmd":              fmt.Sprintf("/verif/bin/govc check %s %s", id, tier),
			"trusted_base":             trusted,
			"samples":                  samples,
			"functions_under_contract": fnames,
			"functions_covered":        covers,
			"backends":                 backends,
			"solver_ms":                solverMs,
			"outside_reach":            outside,
			"undecided_unregistered":   unreg,
			"undecided_clauses":        spec.Undecided,
			"analyses":                 analyses,
			"known_findings_reported":  len(lines) - violations,
			"solver_cross_check":                 crossCheckEvidence(tier),
			"callee_contracts_verified_here":     usedHere,
			"callee_contracts_verified_by_other_checks": usedOther,
			"callee_contracts_assumed":           usedAssumed,
		},
		"assumptions": assumptions,
		"wall_s":      time.Since(t0).Seconds(),
		"violations":  violations,
	}
	os.MkdirAll(filepath.Join(verifRoot, "evidence"), 0o755)
	data, _ := json.MarshalIndent(ev, "", " ")
	os.WriteFile(filepath.Join(verifRoot, "evidence", id+".json"), data, 0o644)
	for _, l := range lines {
		fmt.Println(l)
	}
	fmt.Printf("%s %s: %d obligations, %d discharged, %d violations, %d functions, %.1fs\n", id, tier, len(rr.Obls), discharged, violations, len(rr.Funcs), time.Since(t0).Seconds())
	os.RemoveAll(rr.Work)
	if violations > 0 {
		return 1
	}
	if len(rr.Obls) == 0 {
		fmt.Println("ENGINE-ERROR: zero obligations generated")
		return 2
	}
	return 0
}

func sanitizeFile(s string) string {
	r := strings.NewReplacer("/", "_", "#", "-", " ", "_", "*", "", "(", "", ")", "", "$", "_")
	return r.Replace(s)
}

// writeReplay writes the replay file of a failed obligation; returns the VIOLATION-line suffix.
func writeReplay(rr *runResult, o *eng.OblResult, path string) string {
	var b strings.Builder
	fmt.Fprintf(&b, "obligation: %s\nkind: %s\nfunction: %s\nposition: %s\ndescription: %s\nresult: %s (%s)\n\n", o.Name, o.Kind, o.Func, o.Pos, o.Desc, o.Result, o.Why)
	suffix := " no-failing-input-found"
	var fr *eng.FuncResult
	for _, f := range rr.Funcs {
		if f.Key == o.Func {
			fr = f
		}
	}
	if o.FailQ != nil && fr != nil {
		qpath := strings.TrimSuffix(path, ".txt") + ".smt2"
		fr.Engine.DumpQuery(o.FailQ, qpath)
		fmt.Fprintf(&b, "failing query: %s\n", qpath)
		if o.Result == "failed" {
			rep := eng.Replay(fr, o, rr.Work)
			fmt.Fprintf(&b, "\n---- replay against the real code ----\n%s\n", rep.Log)
			if rep.Reproduced {
				suffix = ""
				b.WriteString("\nREPRODUCED on the real code.\n")
				if rep.TestFile != "" {
					tpath := strings.TrimSuffix(path, ".txt") + "_test.go.txt"
					os.WriteFile(tpath, []byte(rep.TestFile), 0o644)
					fmt.Fprintf(&b, "test source: %s\n", tpath)
				}
			}
		}
	}
	fmt.Fprintf(&b, "\n---- solver output ----\n%s\n", truncate(o.Raw, 6000))
	os.WriteFile(path, []byte(b.String()), 0o644)
	return suffix
}

func truncate(s string, n int) string {
	if len(s) > n {
		return s[:n] + "\n...[truncated]"
	}
	return s
}

// runSelftest applies each deliberate break through the overlay and requires the named obligation to fail.
func runSelftest(spec *CheckSpec) int {
	bad := 0
	for _, tc := range spec.Selftest {
		file := filepath.Join("/repo", tc.File)
		data, err := os.ReadFile(file)
		if err != nil {
			fmt.Println("ENGINE-SELFTEST-FAILED", tc.Name, err)
			bad++
			continue
		}
		if !strings.Contains(string(data), tc.Old) {
			fmt.Printf("ENGINE-SELFTEST-SKIPPED %s: anchor text not present in %s (code changed)\n", tc.Name, tc.File)
			continue
		}
		mutated := strings.Replace(string(data), tc.Old, tc.New, 1)
		missing := false
		for _, m := range tc.More {
			if !strings.Contains(mutated, m.Old) {
				missing = true
			}
			mutated = strings.Replace(mutated, m.Old, m.New, 1)
		}
		if missing {
			fmt.Printf("ENGINE-SELFTEST-SKIPPED %s: anchor text not present in %s (code changed)\n", tc.Name, tc.File)
			continue
		}
		rr, err := executeSpec(spec, "quick", map[string][]byte{file: []byte(mutated)})
		if err != nil {
			fmt.Println("ENGINE-SELFTEST-FAILED", tc.Name, err)
			bad++
			continue
		}
		caught := false
		for _, o := range rr.Obls {
			if o.Result != "discharged" && strings.HasPrefix(o.Name, tc.Expect) {
				caught = true
			}
		}
		for _, f := range rr.Funcs {
			if f.Unsupported != "" && (strings.HasPrefix(f.Key, tc.Expect) || strings.HasPrefix(tc.Expect, f.Key+"/")) {
				caught = true // reported as "function can no longer be translated"
			}
		}
		os.RemoveAll(rr.Work)
		if caught {
			fmt.Printf("selftest %s: caught by %s\n", tc.Name, tc.Expect)
		} else {
			fmt.Printf("ENGINE-SELFTEST-FAILED %s: mutant not caught by %s\n", tc.Name, tc.Expect)
			bad++
		}
	}
	// behaviour-preserving edits (refactorings a contributor might make): the check must stay silent
	for _, tc := range spec.Benign {
		file := filepath.Join("/repo", tc.File)
		data, err := os.ReadFile(file)
		if err != nil {
			fmt.Println("ENGINE-SELFTEST-FAILED", tc.Name, err)
			bad++
			continue
		}
		mutated := string(data)
		missing := false
		for _, m := range append([]struct {
			Old string `json:"old"`
			New string `json:"new"`
		}{{tc.Old, tc.New}}, tc.More...) {
			if !strings.Contains(mutated, m.Old) {
				missing = true
			}
			mutated = strings.Replace(mutated, m.Old, m.New, 1)
		}
		if missing {
			fmt.Printf("ENGINE-SELFTEST-SKIPPED %s: anchor text not present in %s (code changed)\n", tc.Name, tc.File)
			continue
		}
		rr, err := executeSpec(spec, "quick", map[string][]byte{file: []byte(mutated)})
		if err != nil {
			fmt.Println("ENGINE-SELFTEST-FAILED benign", tc.Name, err)
			bad++
			continue
		}
		alarm := ""
		for _, o := range rr.Obls {
			if o.Result != "discharged" {
				alarm = o.Name + " (" + o.Why + ")"
			}
		}
		for _, f := range rr.Funcs {
			if f.Unsupported != "" {
				alarm = f.Key + ": " + f.Unsupported
			}
		}
		for _, m := range rr.Missing {
			alarm = "missing " + m
		}
		os.RemoveAll(rr.Work)
		if alarm == "" {
			fmt.Printf("selftest benign %s: silent\n", tc.Name)
		} else {
			fmt.Printf("ENGINE-SELFTEST-FAILED benign %s: false alarm %s\n", tc.Name, alarm)
			bad++
		}
	}
	if bad > 0 {
		return 2
	}
	return 0
}

// unexportedFunc: the function or method name (last component of the key) starts with a lower-case letter
// and is not an anonymous function.
func unexportedFunc(key string) bool {
	i := strings.LastIndex(key, ".")
	name := key[i+1:]
	if name == "" || strings.Contains(name, "$") {
		return false
	}
	return name[0] >= 'a' && name[0] <= 'z'
}

// crossCheckEvidence: in the thorough tier every query is answered by every solver separately.
func crossCheckEvidence(tier string) interface{} {
	if tier != "thorough" {
		return "quick tier: solvers are raced, the first unsat or sat answer decides"
	}
	return map[string]interface{}{
		"queries":                       eng.CrossStats.Queries,
		"unsat_by_two_or_more_solvers":  eng.CrossStats.UnsatByTwoOrMore,
		"unsat_by_a_single_solver":      eng.CrossStats.UnsatBySingleSolver,
		"sat_and_unsat_on_the_same_query": eng.CrossStats.Disagreements,
	}
}
