package main

func runCheck(args []string) int { return 2 }
