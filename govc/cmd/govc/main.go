package main

import (
	"sort"
	"fmt"
	"os"
	"path/filepath"
	"strings"
	"time"

	"govc/internal/eng"
)

func main() {
	if len(os.Args) < 2 {
		fmt.Fprintln(os.Stderr, "usage: govc vf <dir> <modprefix> <func>... | govc check <id> <tier>")
		os.Exit(2)
	}
	switch os.Args[1] {
	case "mutate":
		os.Exit(runMutate(os.Args[2:]))
	case "vf":
		vf(os.Args[2:])
	case "fields":
		// govc fields <dir> <modprefix>: "//@ fields pkg.Struct a, b, c" for every named struct of the module
		p, err := eng.Load(os.Args[2], os.Args[3], nil, "./...")
		if err != nil {
			fmt.Fprintln(os.Stderr, err)
			os.Exit(2)
		}
		sf := eng.StructFields(p)
		var ks []string
		for k := range sf {
			ks = append(ks, k)
		}
		sort.Strings(ks)
		for _, k := range ks {
			fmt.Printf("//@ fields %s %s\n", k, strings.Join(sf[k], ", "))
		}
	case "sigs":
		// govc sigs <dir> <modprefix>: "//@ sig key signature" for every function of the module
		p, err := eng.Load(os.Args[2], os.Args[3], nil, "./...")
		if err != nil {
			fmt.Fprintln(os.Stderr, err)
			os.Exit(2)
		}
		sg := eng.FuncSigs(p)
		var ks []string
		for k := range sg {
			ks = append(ks, k)
		}
		sort.Strings(ks)
		for _, k := range ks {
			fmt.Printf("//@ sig %s %s\n", k, sg[k])
		}
	case "params":
		// govc params <dir> <modprefix>: "key(recv, a, b)" for every function of the module that has a contract
		p, err := eng.Load(os.Args[2], os.Args[3], nil, "./...")
		if err != nil {
			fmt.Fprintln(os.Stderr, err)
			os.Exit(2)
		}
		cs, err := eng.ParseContracts(loadContractFiles(os.Args[2], "/verif/specs"))
		if err != nil {
			fmt.Fprintln(os.Stderr, err)
			os.Exit(2)
		}
		keys := map[string]bool{}
		for key := range cs.Funcs {
			keys[key] = true
		}
		for _, k := range os.Args[4:] {
			keys[k] = true // further functions (named in check files)
		}
		for key := range keys {
			if fn := p.Funcs[key]; fn != nil {
				var ns []string
				for _, prm := range fn.Params {
					ns = append(ns, prm.Name())
				}
				fmt.Printf("%s(%s) locals %s\n", key, strings.Join(ns, ", "), strings.Join(eng.NamedLocals(fn), ", "))
			}
		}
	default:
		os.Exit(runCheck(os.Args[1:]))
	}
}

func loadContractFiles(dirs ...string) map[string]string {
	files := map[string]string{}
	for _, d := range dirs {
		filepath.Walk(d, func(p string, info os.FileInfo, err error) error {
			if err != nil || info.IsDir() {
				return nil
			}
			b := filepath.Base(p)
			if strings.HasPrefix(b, "verif_contracts") || strings.HasSuffix(b, ".spec") {
				if data, err := os.ReadFile(p); err == nil {
					files[p] = string(data)
				}
			}
			return nil
		})
	}
	return files
}

// vf: ad-hoc verification of named functions, printing every obligation.
func vf(args []string) {
	dir, mod := args[0], args[1]
	p, err := eng.Load(dir, mod, nil, "./...")
	if err != nil {
		fmt.Fprintln(os.Stderr, err)
		os.Exit(2)
	}
	cs, err := eng.ParseContracts(loadContractFiles(dir, "/verif/specs"))
	if err != nil {
		fmt.Fprintln(os.Stderr, err)
		os.Exit(2)
	}
	work, _ := os.MkdirTemp("", "govc")
	cfg := &eng.CheckConfig{Safety: true, InlineDepth: 0, NilDeref: true}
	if os.Getenv("GOVC_STRBYTES") != "" {
		cfg.StrBytes = true
	}
	for _, name := range args[2:] {
		fn := p.Funcs[name]
		if fn == nil {
			fmt.Println("no such function", name)
			continue
		}
		r := eng.VerifyFunc(p, cs, fn, cfg, work, 10*time.Second)
		fmt.Printf("== %s  paths=%d returns=%d cover=%v %dms\n", r.Key, r.Paths, r.Returns, r.CoverOK, r.Ms)
		if r.Unsupported != "" {
			fmt.Println("   OUTSIDE REACH:", r.Unsupported)
		}
		for _, o := range r.Obls {
			fmt.Printf("   %-11s %-60s %s q=%d %dms %s %s\n", o.Result, o.Name, o.Backend, o.Queries, o.Ms, o.Pos, o.Why)
			if o.Result == "failed" && os.Getenv("GOVC_MODEL") != "" {
				fmt.Println(o.Model)
			}
		}
		for _, n := range r.Notes {
			fmt.Println("   note:", n)
		}
	}
	fmt.Println("workdir", work)
}
