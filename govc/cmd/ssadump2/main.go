package main

import (
	"fmt"
	"os"
	"strings"

	"golang.org/x/tools/go/packages"
	"golang.org/x/tools/go/ssa"
	"golang.org/x/tools/go/ssa/ssautil"
)

func main() {
	dir := os.Args[1]
	pat := os.Args[2]
	cfg := &packages.Config{Mode: packages.LoadAllSyntax, Dir: dir, BuildFlags: []string{"-tags=verif"}}
	pkgs, err := packages.Load(cfg, pat)
	if err != nil {
		panic(err)
	}
	prog, spkgs := ssautil.AllPackages(pkgs, ssa.NaiveForm|ssa.InstantiateGenerics)
	prog.Build()
	for _, sp := range spkgs {
		if sp == nil || !strings.Contains(sp.Pkg.Path(), "Workiva") {
			continue
		}
		for fn := range ssautil.AllFunctions(prog) {
			if fn.Pkg != sp {
				continue
			}
			for _, want := range os.Args[3:] {
				if strings.Contains(fn.String(), want) {
					fn.WriteTo(os.Stdout)
					fmt.Println()
				}
			}
		}
	}
}
