package eng

import (
	"go/constant"
	"os"
	"fmt"
	"go/token"
	"go/types"
	"sort"
	"strings"
	"time"

	"golang.org/x/tools/go/ssa"
)

func init() {
	analyses["determinism"] = analyseDeterminism
}

// analyseDeterminism (C19): over every function of the module reachable from args["root"] (static calls,
// closures, module implementations of invoked interface methods):
//   deterministic   no call to a listed nondeterministic primitive (clock, randomness, process/host/cwd
//                   identity), no goroutine, no select
//   commutes        every range over a map is declared in the contracts (maprange <func> <k> <class>) and
//                   its class is checked on the SSA: sorted-keys = the loop only appends the key to a
//                   local slice which is handed to sort.Strings before any other use (keys of a map are
//                   distinct, so the sort key is injective); set-insert = the loop body only stores into
//                   maps
//   reads-frame     the location fields (Frugal.File/Dir/Path, globals.Out/FileDir/Now) are read only by
//                   the listed functions
func analyseDeterminism(as AnalysisSpec, progs []*Program, cs *Contracts, funcs []*FuncResult, work string, timeout time.Duration) *AnalysisResult {
	ar := &AnalysisResult{Name: as.Name}
	forbidden := map[string]bool{}
	for _, f := range strings.Split(as.Args["forbidden"], ",") {
		if f = strings.TrimSpace(f); f != "" {
			forbidden[f] = true
		}
	}
	// environment packages: every static call into one of them is forbidden unless it is listed as
	// harmless (deterministic and independent of the machine, the process and the state of the file
	// system) or allowed at that site
	envPkgs, harmless := map[string]bool{}, map[string]bool{}
	for _, f := range strings.Split(as.Args["environment_packages"], ",") {
		if f = strings.TrimSpace(f); f != "" {
			envPkgs[f] = true
		}
	}
	for _, f := range strings.Split(as.Args["harmless_calls"], ",") {
		if f = strings.TrimSpace(f); f != "" {
			harmless[f] = true
		}
	}
	allowedReaders := map[string]map[string]bool{} // location -> functions
	for _, item := range as.List {
		parts := strings.SplitN(item, ":", 2)
		if len(parts) == 2 {
			if allowedReaders[parts[0]] == nil {
				allowedReaders[parts[0]] = map[string]bool{}
			}
			for _, fn := range strings.Split(parts[1], "|") {
				allowedReaders[parts[0]][fn] = true
			}
		}
	}
	for _, p := range progs {
		reach := p.Closure([]string{as.Args["root"]}, nil)
		if len(reach) == 0 {
			ar.Obls = append(ar.Obls, &OblResult{Name: "module/deterministic", Kind: "deterministic", Result: "failed", Why: "root " + as.Args["root"] + " not found"})
			continue
		}
		det := &OblResult{Name: "module/deterministic", Kind: "deterministic", Func: as.Args["root"], Backend: "ssa-walker", Result: "discharged", Desc: fmt.Sprintf("no nondeterministic primitive, goroutine or select in the %d functions reachable from %s", len(reach), as.Args["root"])}
		ar.Obls = append(ar.Obls, det)
		readObl := map[string]*OblResult{}
		var locs []string
		for l := range allowedReaders {
			locs = append(locs, l)
		}
		sort.Strings(locs)
		for _, l := range locs {
			o := &OblResult{Name: "module/reads-frame:" + l, Kind: "reads-frame", Func: l, Backend: "ssa-walker", Result: "discharged", Desc: l + " is read only by the listed functions"}
			readObl[l] = o
			ar.Obls = append(ar.Obls, o)
		}
		nsites := 0
		for _, key := range reach {
			fn := p.Funcs[key]
			if fn == nil {
				continue
			}
			k := 0
			for _, b := range fn.Blocks {
				for _, in := range b.Instrs {
					switch x := in.(type) {
					case *ssa.Go:
						det.Result, det.Why = "failed", "goroutine started at "+p.Pos(x.Pos())+" in "+key
					case *ssa.Select:
						det.Result, det.Why = "failed", "select at "+p.Pos(x.Pos())+" in "+key
					case *ssa.Call:
						if sc := x.Call.StaticCallee(); sc != nil {
							name := calleeKeyExternal(sc)
							if sc.Pkg != nil && strings.HasPrefix(sc.Pkg.Pkg.Path(), p.ModPrefix) {
								name = p.FuncKey(sc)
							}
							isForbidden := forbidden[name] || (sc.Pkg != nil && forbidden[sc.Pkg.Pkg.Path()+".*"])
							if !isForbidden && sc.Pkg != nil && envPkgs[sc.Pkg.Pkg.Path()] && !harmless[name] && !(strings.HasPrefix(sc.Pkg.Pkg.Path(), p.ModPrefix)) {
								isForbidden = true
								// "time.Duration.*": every method of that type
								if i := strings.LastIndex(name, "."); i > 0 && harmless[name[:i]+".*"] {
									isForbidden = false
								}
							}
							if isForbidden && !allowedForbidden(as.Args["allow_forbidden"], name, key) {
								why := "call to " + name + " at " + p.Pos(x.Pos()) + " in " + key
								if det.Result == "failed" && strings.HasPrefix(det.Why, "call to ") {
									if strings.Contains(det.Why, "call to "+name+" at ") || len(det.Why) > 3000 {
										why = det.Why // one site per callee is enough
									} else {
										why = det.Why + "; " + why
									}
								}
								det.Result, det.Why = "failed", why
							}
							if name == "os.OpenFile" && len(x.Call.Args) >= 2 {
								// an output file must not keep bytes from an earlier run: opened truncating,
								// unless the site is declared to reopen a file created earlier in the same run
								trunc := false
								if c, ok := x.Call.Args[1].(*ssa.Const); ok && c.Value != nil {
									if v, ok := constant.Int64Val(c.Value); ok && v&int64(os.O_TRUNC) != 0 {
										trunc = true
									}
								}
								if !trunc && !strings.Contains(","+as.Args["allow_open_existing"]+",", ","+key+",") {
									det.Result, det.Why = "failed", "os.OpenFile without O_TRUNC at "+p.Pos(x.Pos())+" in "+key+" (content of an existing file can survive into the output)"
								}
							}
						}
					case *ssa.Convert:
						// pointer -> integer exposes addresses
						if _, isPtr := x.X.Type().Underlying().(*types.Pointer); isPtr {
							if _, _, isInt := isInteger(x.Type()); isInt {
								det.Result, det.Why = "failed", "pointer converted to integer at "+p.Pos(x.Pos())+" in "+key
							}
						}
					case *ssa.Range:
						if _, ok := x.X.Type().Underlying().(*types.Map); !ok {
							continue
						}
						nsites++
						site := fmt.Sprintf("%s#%d", key, k)
						k++
						o := &OblResult{Name: key + "/commutes#" + fmt.Sprint(k-1), Kind: "commutes", Func: key, Pos: p.Pos(x.Pos()), Backend: "ssa-walker", Result: "discharged"}
						ar.Obls = append(ar.Obls, o)
						class, ok := cs.MapRanges[site]
						if !ok {
							// no declaration: the loop may still be of a shape whose order provably cannot matter
							for _, cand := range []string{"sorted-keys", "set-insert"} {
								if okc, _ := checkMapRangeClass(fn, x, cand); okc {
									class, ok = cand, true
									o.Desc = "range over map: " + cand + " (shape recognised, not declared)"
									break
								}
							}
							if ok {
								continue
							}
							o.Name = key + "/commutes-missing#" + fmt.Sprint(k-1)
							o.Result, o.Why = "failed", "range over a map at "+p.Pos(x.Pos())+" has no declared justification and is of no recognised order-independent shape (iteration order is random)"
							continue
						}
						o.Desc = "range over map: " + class
						if okc, why := checkMapRangeClass(fn, x, class); !okc {
							o.Result, o.Why = "failed", why
						}
					case *ssa.UnOp:
						if x.Op != token.MUL {
							continue
						}
						loc := ""
						switch a := x.X.(type) {
						case *ssa.FieldAddr:
							st := deref(a.X.Type())
							loc = structKey(st) + "." + st.Underlying().(*types.Struct).Field(a.Field).Name()
						case *ssa.Global:
							if a.Pkg != nil {
								loc = PkgShort(a.Pkg.Pkg.Path()) + "." + a.Name()
							}
						}
						if o, tracked := readObl[loc]; tracked && !allowedReaders[loc][key] {
							o.Result, o.Why = "failed", loc+" read at "+p.Pos(x.Pos())+" in "+key
						}
					}
				}
			}
		}
		// state that outlives a compilation: a package-level variable of the module written (or whose map /
		// slice / struct contents are written) by a reachable function must be one that is reset at the
		// start of every compilation (args["reset_by"] stores to it) or be listed as harmless
		if as.Args["reset_by"] != "" {
			resetFn := p.Funcs[as.Args["reset_by"]]
			gs := &OblResult{Name: "module/global-state", Kind: "deterministic", Func: as.Args["root"], Backend: "ssa-walker", Result: "discharged", Desc: "every package-level variable written while compiling is re-initialised by " + as.Args["reset_by"] + " (nothing survives from an earlier compilation in the same process)"}
			ar.Obls = append(ar.Obls, gs)
			resets := map[*ssa.Global]bool{}
			if resetFn == nil {
				gs.Result, gs.Why = "failed", "reset function not found"
			} else {
				for _, b := range resetFn.Blocks {
					for _, in := range b.Instrs {
						if st, ok := in.(*ssa.Store); ok {
							if g, ok := st.Addr.(*ssa.Global); ok {
								resets[g] = true
							}
						}
					}
				}
			}
			rootGlobal := func(v ssa.Value) *ssa.Global {
				for i := 0; i < 8; i++ {
					switch x := v.(type) {
					case *ssa.Global:
						return x
					case *ssa.FieldAddr:
						v = x.X
					case *ssa.IndexAddr:
						v = x.X
					case *ssa.UnOp:
						v = x.X
					case *ssa.Field:
						v = x.X
					default:
						return nil
					}
				}
				return nil
			}
			for _, key := range reach {
				fn := p.Funcs[key]
				if fn == nil || fn == resetFn {
					continue
				}
				for _, b := range fn.Blocks {
					for _, in := range b.Instrs {
						var g *ssa.Global
						switch x := in.(type) {
						case *ssa.Store:
							g = rootGlobal(x.Addr)
						case *ssa.MapUpdate:
							g = rootGlobal(x.Map)
						case ssa.CallInstruction:
							// a map, slice, pointer or channel held in a package-level variable handed to a
							// call: the callee may write through it
							if bi, isBuiltin := x.Common().Value.(*ssa.Builtin); isBuiltin && (bi.Name() == "len" || bi.Name() == "cap") {
								break
							}
							for _, a := range x.Common().Args {
								switch a.Type().Underlying().(type) {
								case *types.Map, *types.Slice, *types.Pointer, *types.Chan:
									if u, isLoad := a.(*ssa.UnOp); isLoad {
										if gg, isG := u.X.(*ssa.Global); isG {
											g = gg
										}
									}
								}
							}
						}
						if g == nil || g.Pkg == nil || !strings.HasPrefix(g.Pkg.Pkg.Path(), p.ModPrefix) {
							continue
						}
						name := PkgShort(g.Pkg.Pkg.Path()) + "." + g.Name()
						if resets[g] || strings.Contains(","+as.Args["harmless_globals"]+",", ","+name+",") {
							continue
						}
						gs.Result, gs.Why = "failed", "package-level "+name+" is written at "+p.Pos(in.Pos())+" in "+key+" and not re-initialised by "+as.Args["reset_by"]
					}
				}
			}
		}
		ar.Details = append(ar.Details, fmt.Sprintf("%d reachable functions, %d map-range sites", len(reach), nsites))
	}
	ar.Summary = "determinism effect over the functions reachable from " + as.Args["root"]
	return ar
}

// checkMapRangeClass decides the declared justification of a range-over-map loop on the SSA.
func checkMapRangeClass(fn *ssa.Function, rg *ssa.Range, class string) (bool, string) {
	li := computeLoops(fn)
	var lp *loop
	for _, l := range li.byHeader {
		for b := range l.blocks {
			for _, in := range b.Instrs {
				if nx, ok := in.(*ssa.Next); ok && nx.Iter == ssa.Value(rg) {
					if lp == nil || len(l.blocks) < len(lp.blocks) {
						lp = l
					}
				}
			}
		}
	}
	if lp == nil {
		return false, "loop of the range not found"
	}
	switch class {
	case "sorted-keys":
		// inside the loop: only locals are written; exactly one append, of the key, to a local slice
		var target *ssa.Alloc
		for b := range lp.blocks {
			for _, in := range b.Instrs {
				switch x := in.(type) {
				case *ssa.Store:
					al := rootAlloc(x.Addr)
					if al == nil {
						return false, "the loop writes to non-local memory"
					}
					if c, ok := x.Val.(*ssa.Call); ok {
						if bi, ok := c.Call.Value.(*ssa.Builtin); ok && bi.Name() == "append" {
							if target != nil && target != al {
								return false, "the loop appends to more than one slice"
							}
							target = al
						}
					}
				case *ssa.MapUpdate, *ssa.Send, *ssa.Go, *ssa.Defer:
					return false, fmt.Sprintf("the loop has another effect (%T)", in)
				case *ssa.Call:
					if bi, ok := x.Call.Value.(*ssa.Builtin); ok && (bi.Name() == "append" || bi.Name() == "len") {
						continue
					}
					return false, "the loop calls " + x.Call.Value.Name()
				}
			}
		}
		if target == nil {
			return false, "no append found in the loop"
		}
		// after the loop: the first use of the slice is sort.Strings / sort.Sort / sort.Stable
		sorted := false
		for _, b := range fn.Blocks {
			if lp.blocks[b] {
				continue
			}
			for _, in := range b.Instrs {
				c, ok := in.(*ssa.Call)
				if !ok {
					continue
				}
				if sc := c.Call.StaticCallee(); sc != nil && sc.Pkg != nil && sc.Pkg.Pkg.Path() == "sort" && (sc.Name() == "Strings" || sc.Name() == "Ints") {
					if u, ok := c.Call.Args[0].(*ssa.UnOp); ok && u.X == ssa.Value(target) {
						sorted = true
					}
				}
			}
		}
		if !sorted {
			return false, "the collected keys are not handed to sort.Strings"
		}
		return true, ""
	case "set-insert":
		for b := range lp.blocks {
			for _, in := range b.Instrs {
				switch x := in.(type) {
				case *ssa.Store:
					if rootAlloc(x.Addr) == nil {
						return false, "the loop writes to non-local memory"
					}
					// a local that accumulates in iteration order (slice, string, number) is not a set
					switch x.Val.Type().Underlying().(type) {
					case *types.Slice:
						return false, "the loop builds a slice in iteration order"
					case *types.Basic:
						if _, fromNext := x.Val.(*ssa.Extract); !fromNext {
							if _, isConst := x.Val.(*ssa.Const); !isConst {
								return false, "the loop accumulates a value in iteration order"
							}
						}
					}
				case *ssa.Send, *ssa.Go, *ssa.Defer:
					return false, fmt.Sprintf("the loop has another effect (%T)", in)
				case *ssa.Call:
					if bi, ok := x.Call.Value.(*ssa.Builtin); ok {
						if bi.Name() == "append" || bi.Name() == "copy" {
							return false, "the loop appends in iteration order"
						}
						continue
					}
					return false, "the loop calls " + x.Call.Value.Name()
				}
			}
		}
		return true, ""
	}
	return false, "unknown class " + class
}

// rootAlloc: the local an address is rooted at (through element / field addressing), or nil.
func rootAlloc(v ssa.Value) *ssa.Alloc {
	for i := 0; i < 8; i++ {
		switch x := v.(type) {
		case *ssa.Alloc:
			return x
		case *ssa.IndexAddr:
			v = x.X
		case *ssa.FieldAddr:
			v = x.X
		default:
			return nil
		}
	}
	return nil
}

// allowedForbidden: "callee@pkg.Func" allows the call in that function; "callee@pkg.*" anywhere in that package.
func allowedForbidden(list, name, key string) bool {
	for _, it := range strings.Split(list, ",") {
		it = strings.TrimSpace(it)
		if it == name+"@"+key {
			return true
		}
		if strings.HasSuffix(it, ".*") && strings.HasPrefix(it, name+"@") {
			pk := strings.TrimSuffix(strings.TrimPrefix(it, name+"@"), "*")
			if strings.HasPrefix(key, pk) && !strings.Contains(key[len(pk):], ".") {
				return true
			}
		}
	}
	return false
}
