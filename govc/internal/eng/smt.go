package eng

import (
	"bytes"
	"context"
	"fmt"
	"os"
	"os/exec"
	"path/filepath"
	"strings"
	"sync"
	"time"
)

func envBase() []string { return os.Environ() }

// Prelude is prepended to every query.
const Prelude = `(set-option :produce-models true)
(set-logic ALL)
(declare-sort Str 0)
(declare-fun slen (Str) Int)
(declare-fun sat (Str Int) Int)
(declare-fun sconcat (Str Str) Str)
(declare-fun ityp (Int) Int)
(declare-fun iref (Int) Int)
(declare-fun faddr (Int Int) Int)
(declare-fun ttype (Int) Int)
(declare-fun atype (Int) Int)
(declare-fun istr (Int) Str)
(declare-fun strbox (Str) Int)
(declare-fun u32be (Int Int Int Int) Int)
(define-fun wrapu ((x Int) (m Int)) Int (mod x m))
(define-fun wraps ((x Int) (h Int)) Int (- (mod (+ x h) (* 2 h)) h))
(define-fun imin ((a Int) (b Int)) Int (ite (<= a b) a b))
(define-fun imax ((a Int) (b Int)) Int (ite (>= a b) a b))
(define-fun tdiv ((a Int) (b Int)) Int (ite (>= a 0) (div a b) (- (div (- a) b))))
(define-fun tmod ((a Int) (b Int)) Int (- a (* b (tdiv a b))))
`

type SolverResult struct {
	Result string // unsat | sat | unknown | timeout | error
	Solver string
	Ms     int64
	Model  string
	Raw    string
}

var solverCmds = [][]string{
	{"z3-new", "-smt2"},
	{"z3", "-smt2"},
	{"cvc5", "--lang=smt2", "--produce-models"},
}

var solverSem = make(chan struct{}, 14)

// CrossCheck (thorough tier): do not race the solvers, let each of them answer every query.
var CrossCheck bool
var crossMu sync.Mutex

// CrossStats counts how the solvers agreed in cross-check mode.
var CrossStats struct {
	Queries, UnsatByTwoOrMore, UnsatBySingleSolver, Disagreements int
}

func fixForCvc5(q string) string {
	// cvc5 wants (- n) for negative literals; we always print them that way.
	return q
}

// Solve races the installed solvers on one query. wantModel asks for (get-model) on sat.
func Solve(workdir, name, query string, timeout time.Duration, only string) SolverResult {
	solverSem <- struct{}{}
	defer func() { <-solverSem }()
	file := filepath.Join(workdir, sanitize(name)+".smt2")
	full := Prelude + query + "\n(check-sat)\n(get-model)\n"
	if err := os.WriteFile(file, []byte(full), 0o644); err != nil {
		return SolverResult{Result: "error", Raw: err.Error()}
	}
	ctx, cancel := context.WithTimeout(context.Background(), timeout)
	defer cancel()
	type res struct {
		r SolverResult
	}
	ch := make(chan SolverResult, len(solverCmds))
	var wg sync.WaitGroup
	n := 0
	for _, sc := range solverCmds {
		if only != "" && sc[0] != only {
			continue
		}
		n++
		wg.Add(1)
		go func(sc []string) {
			defer wg.Done()
			t0 := time.Now()
			args := append([]string{}, sc[1:]...)
			if sc[0] == "cvc5" {
				args = append(args, fmt.Sprintf("--tlimit=%d", timeout.Milliseconds()))
			} else {
				args = append(args, fmt.Sprintf("-T:%d", int(timeout.Seconds())+1))
			}
			args = append(args, file)
			cmd := exec.CommandContext(ctx, sc[0], args...)
			var out bytes.Buffer
			cmd.Stdout = &out
			cmd.Stderr = &out
			_ = cmd.Run()
			s := out.String()
			first := strings.TrimSpace(strings.SplitN(s, "\n", 2)[0])
			r := SolverResult{Solver: sc[0], Ms: time.Since(t0).Milliseconds(), Raw: s}
			switch {
			case first == "unsat":
				r.Result = "unsat"
			case first == "sat":
				r.Result = "sat"
				if i := strings.Index(s, "\n"); i >= 0 {
					r.Model = s[i+1:]
				}
			case ctx.Err() != nil || first == "timeout" || strings.Contains(first, "interrupted"):
				r.Result = "timeout"
			case first == "unknown":
				r.Result = "unknown"
			default:
				r.Result = "error"
			}
			ch <- r
		}(sc)
	}
	go func() { wg.Wait(); close(ch) }()
	if CrossCheck && only == "" {
		// thorough tier: every solver answers (no race); a single "sat" refutes, and a "sat" next to an
		// "unsat" is recorded as a disagreement between solvers
		var all []SolverResult
		for r := range ch {
			all = append(all, r)
		}
		var sat, unsat []SolverResult
		for _, r := range all {
			switch r.Result {
			case "sat":
				sat = append(sat, r)
			case "unsat":
				unsat = append(unsat, r)
			}
		}
		crossMu.Lock()
		CrossStats.Queries++
		switch {
		case len(sat) > 0 && len(unsat) > 0:
			CrossStats.Disagreements++
		case len(unsat) >= 2:
			CrossStats.UnsatByTwoOrMore++
		case len(unsat) == 1:
			CrossStats.UnsatBySingleSolver++
		}
		crossMu.Unlock()
		if len(sat) > 0 {
			r := sat[0]
			if len(unsat) > 0 {
				r.Raw = "SOLVER DISAGREEMENT: " + unsat[0].Solver + " answered unsat\n" + r.Raw
			}
			return r
		}
		if len(unsat) > 0 {
			r := unsat[0]
			var names []string
			var ms int64
			for _, u := range unsat {
				names = append(names, u.Solver)
				if u.Ms > ms {
					ms = u.Ms
				}
			}
			r.Solver, r.Ms = strings.Join(names, "+"), ms
			if os.Getenv("GOVC_KEEP") == "" {
				os.Remove(file)
			}
			return r
		}
		if len(all) > 0 {
			return all[0]
		}
		return SolverResult{Result: "unknown"}
	}
	var last SolverResult
	last.Result = "unknown"
	var errs []string
	for r := range ch {
		if r.Result == "unsat" || r.Result == "sat" {
			cancel()
			if r.Result == "unsat" && os.Getenv("GOVC_KEEP") == "" {
				os.Remove(file)
			}
			return r
		}
		if r.Result == "error" {
			errs = append(errs, r.Solver+": "+firstLines(r.Raw, 3))
		}
		if last.Result == "unknown" || r.Result == "timeout" {
			last = r
		}
	}
	if len(errs) == n {
		last.Result = "error"
		last.Raw = strings.Join(errs, "\n")
	}
	return last
}

func firstLines(s string, n int) string {
	ls := strings.Split(s, "\n")
	if len(ls) > n {
		ls = ls[:n]
	}
	return strings.Join(ls, " | ")
}

func sanitize(s string) string {
	var b strings.Builder
	for _, r := range s {
		if r >= 'a' && r <= 'z' || r >= 'A' && r <= 'Z' || r >= '0' && r <= '9' || r == '.' || r == '-' || r == '_' {
			b.WriteRune(r)
		} else {
			b.WriteByte('_')
		}
	}
	out := b.String()
	if len(out) > 150 {
		out = out[:150]
	}
	return out
}

// ---- term helpers (terms are SMT-LIB strings) ----

func num(n int64) string {
	if n < 0 {
		return fmt.Sprintf("(- %d)", -n)
	}
	return fmt.Sprintf("%d", n)
}

func bigNum(s string) string {
	if strings.HasPrefix(s, "-") {
		return "(- " + s[1:] + ")"
	}
	return s
}

func app(op string, args ...string) string {
	return "(" + op + " " + strings.Join(args, " ") + ")"
}

func and(args ...string) string {
	var xs []string
	for _, a := range args {
		if a == "true" {
			continue
		}
		if a == "false" {
			return "false"
		}
		xs = append(xs, a)
	}
	switch len(xs) {
	case 0:
		return "true"
	case 1:
		return xs[0]
	}
	return app("and", xs...)
}

func or(args ...string) string {
	var xs []string
	for _, a := range args {
		if a == "false" {
			continue
		}
		if a == "true" {
			return "true"
		}
		xs = append(xs, a)
	}
	switch len(xs) {
	case 0:
		return "false"
	case 1:
		return xs[0]
	}
	return app("or", xs...)
}

func not(a string) string {
	switch a {
	case "true":
		return "false"
	case "false":
		return "true"
	}
	return app("not", a)
}

func implies(a, b string) string {
	if a == "true" {
		return b
	}
	return app("=>", a, b)
}

func eq(a, b string) string { return app("=", a, b) }
