package eng

import (
	"fmt"
	"go/constant"
	"go/types"
	"strings"

	"golang.org/x/tools/go/ssa"
)

type extFn func(e *Engine, s *State, c *ssa.CallCommon, args []*Val, in ssa.Instruction) *Val

// extEffects: heap prefixes an external may modify (for loop havoc); empty = pure.
var extEffects = map[string][]string{}

var extStatic = map[string]extFn{}
var extInvoke = map[string]extFn{}

// TrustedSpecs lists every hand-coded external specification (printed in the evidence).
var TrustedSpecs = []string{}

func reg(key string, effects []string, doc string, f extFn) {
	extStatic[key] = f
	extEffects[key] = effects
	TrustedSpecs = append(TrustedSpecs, key+": "+doc)
}

func pureString(e *Engine, s *State, c *ssa.CallCommon, args []*Val, in ssa.Instruction) *Val {
	r := e.declare(s, "fmtstr", "Str")
	s.assume(app(">=", app("slen", r), "0"))
	return &Val{L: []string{r}}
}

func freshError(e *Engine, s *State) *Val {
	r := e.declare(s, "err", "Int")
	s.assume(app(">", r, "0"))
	return &Val{L: []string{r}, NN: true}
}

func lockKey(e *Engine, a *Val) (string, *Addr) {
	if a.A == nil {
		if len(a.L) == 1 {
			// a lock reached through a pointer value (shared *sync.Mutex): identified by the pointer; when
			// the pointer was loaded from a field that is written only at construction, by that field (two
			// loads of it are the same pointer even across calls)
			if a.Src != "" && e.C != nil {
				if i := strings.LastIndex(a.Src, "."); i > 0 && e.C.Immutable[a.Src] {
					return "P@" + a.Src + "@" + a.SrcBase, &Addr{K: ACell, Base: a.L[0]}
				}
			}
			return "P@" + a.L[0], &Addr{K: ACell, Base: a.L[0]}
		}
		return "", nil
	}
	if a.A.K != AField && a.A.K != AGlobal {
		return "", nil
	}
	return a.A.Key(), a.A
}

func init() {
	for _, k := range []string{"fmt.Sprint", "fmt.Sprintln"} {
		reg(k, nil, "pure; result an unconstrained string", pureString)
	}
	reg("fmt.Sprintf", nil, "pure; for a constant format made only of literal text and %s verbs applied to strings the result is the exact concatenation, otherwise an unconstrained string", func(e *Engine, s *State, c *ssa.CallCommon, args []*Val, in ssa.Instruction) *Val {
		fc, ok := c.Args[0].(*ssa.Const)
		if !ok || fc.Value == nil || fc.Value.Kind() != constant.String || len(args) < 2 || len(args[1].L) != 4 {
			return pureString(e, s, c, args, in)
		}
		format := constant.StringVal(fc.Value)
		var segs []string // literal text or "" for a %s
		cur := ""
		nverbs := 0
		for i := 0; i < len(format); i++ {
			if format[i] != '%' {
				cur += string(format[i])
				continue
			}
			if i+1 < len(format) && format[i+1] == 's' {
				segs = append(segs, cur, "")
				cur = ""
				nverbs++
				i++
				continue
			}
			return pureString(e, s, c, args, in) // other verbs: unconstrained
		}
		segs = append(segs, cur)
		h := e.heapGet(s, "E!any", "(Array Int (Array Int Int))")
		arr := app("select", h, args[1].L[0])
		res := ""
		k := 0
		for idx, sg := range segs {
			var piece string
			if idx%2 == 0 {
				if sg == "" {
					continue
				}
				piece = e.strLit(sg)
			} else {
				// the k-th variadic argument must be a string boxed in an interface
				iv := app("select", arr, app("+", args[1].L[1], num(int64(k))))
				k++
				s.assume(app(">=", app("slen", app("istr", iv)), "0"))
				piece = app("istr", iv)
			}
			if res == "" {
				res = piece
			} else {
				res = app("sconcat", res, piece)
			}
		}
		if res == "" {
			res = e.strLit("")
		}
		// exact only when every %s argument really is a string (dynamic type tag); otherwise unconstrained
		var tags []string
		for j := 0; j < nverbs; j++ {
			iv := app("select", arr, app("+", args[1].L[1], num(int64(j))))
			tags = append(tags, eq(app("ityp", iv), e.typeTag(types.Typ[types.String])))
		}
		r := e.declare(s, "fmtstr", "Str")
		s.assume(app(">=", app("slen", r), "0"))
		s.assume(implies(and(tags...), eq(r, res)))
		return &Val{L: []string{r}}
	})
	reg("fmt.Errorf", nil, "pure; result a non-nil error", func(e *Engine, s *State, c *ssa.CallCommon, args []*Val, in ssa.Instruction) *Val {
		return freshError(e, s)
	})
	reg("errors.New", nil, "pure; result a non-nil error", func(e *Engine, s *State, c *ssa.CallCommon, args []*Val, in ssa.Instruction) *Val {
		return freshError(e, s)
	})
	be := func(name string) {
		reg("binary.bigEndian.Uint32", nil, "requires len(b) >= 4; result is the big-endian value of b[0..4)", func(e *Engine, s *State, c *ssa.CallCommon, args []*Val, in ssa.Instruction) *Val {
			b := args[len(args)-1]
			e.assert(s, e.oblName(s, in, "callee-pre"), "callee-pre", in.Pos(), "binary.BigEndian.Uint32 needs len(b) >= 4 (else index panic)", app(">=", b.L[2], "4"))
			h := e.heapGet(s, "E!uint8", "(Array Int (Array Int Int))")
			arr := app("select", h, b.L[0])
			var bs []string
			for k := 0; k < 4; k++ {
				x := e.define(s, "byte", "Int", app("select", arr, app("+", b.L[1], num(int64(k)))))
				s.assume(and(app("<=", "0", x), app("<", x, "256")))
				bs = append(bs, x)
			}
			r := e.define(s, "u32", "Int", app("+", app("*", "16777216", bs[0]), app("*", "65536", bs[1]), app("*", "256", bs[2]), bs[3]))
			return &Val{L: []string{r}}
		})
	}
	be("")
	reg("binary.bigEndian.PutUint32", []string{"E!uint8"}, "requires len(b) >= 4; writes the big-endian bytes of v to b[0..4)", func(e *Engine, s *State, c *ssa.CallCommon, args []*Val, in ssa.Instruction) *Val {
		b, v := args[len(args)-2], args[len(args)-1].L[0]
		e.assert(s, e.oblName(s, in, "callee-pre"), "callee-pre", in.Pos(), "binary.BigEndian.PutUint32 needs len(b) >= 4 (else index panic)", app(">=", b.L[2], "4"))
		name, sortS := "E!uint8", "(Array Int (Array Int Int))"
		h := e.heapGet(s, name, sortS)
		arr := app("select", h, b.L[0])
		arr = app("store", arr, b.L[1], app("div", v, "16777216"))
		arr = app("store", arr, app("+", b.L[1], "1"), app("mod", app("div", v, "65536"), "256"))
		arr = app("store", arr, app("+", b.L[1], "2"), app("mod", app("div", v, "256"), "256"))
		arr = app("store", arr, app("+", b.L[1], "3"), app("mod", v, "256"))
		e.heapSet(s, name, sortS, app("store", h, b.L[0], arr))
		return &Val{}
	})
	reg("io.ReadFull", []string{"E!uint8", "GH!consumed"}, "err == nil => n == len(buf) and buf holds arbitrary bytes; err != nil => 0 <= n < len(buf); consumed(r) += n; only buf is written", func(e *Engine, s *State, c *ssa.CallCommon, args []*Val, in ssa.Instruction) *Val {
		rd, b := args[0], args[1]
		name, sortS := "E!uint8", "(Array Int (Array Int Int))"
		h := e.heapGet(s, name, sortS)
		arr := e.declare(s, "readbuf", "(Array Int Int)")
		if e.Cfg.StrBytes {
			s.add(fmt.Sprintf("(assert (forall ((k!q Int)) (=> (or (< k!q %s) (>= k!q (+ %s %s))) (= (select %s k!q) (select (select %s %s) k!q)))))", b.L[1], b.L[1], b.L[2], arr, h, b.L[0]))
		}
		e.heapSet(s, name, sortS, app("store", h, b.L[0], arr))
		n := e.declare(s, "rf_n", "Int")
		er := e.declare(s, "rf_err", "Int")
		s.assume(and(app(">=", er, "0"), app("ite", eq(er, "0"), eq(n, b.L[2]), and(app("<=", "0", n), app("<", n, b.L[2])))))
		gs := "(Array Int Int)"
		g := e.heapGet(s, "GH!consumed", gs)
		e.heapSet(s, "GH!consumed", gs, app("store", g, rd.L[0], app("+", app("select", g, rd.L[0]), n)))
		e.event(s, Event{Kind: "call", What: "io.ReadFull", Args: args, ArgTypes: e.argTypesFor(args), Pos: e.P.Pos(in.Pos()), Instr: in, Blocking: true, Extra: map[string]string{"io": "1"}})
		return &Val{Tup: []*Val{{L: []string{n}}, {L: []string{er}}}, L: []string{n, er}}
	})
	// ---- locks ----
	lock := func(key, mode string, acquire bool) {
		reg(key, []string{"F!", "MD!", "MV!", "ML!"}, "lock ghost; guard invariant assumed at acquire and asserted at release; protected fields havocked at acquire", func(e *Engine, s *State, c *ssa.CallCommon, args []*Val, in ssa.Instruction) *Val {
			k, a := lockKey(e, args[0])
			if a == nil {
				e.unsupportedf("lock that is not a struct field at %s", e.P.Pos(in.Pos()))
			}
			if acquire {
				e.event(s, Event{Kind: "lock", What: k, Pos: e.P.Pos(in.Pos()), Instr: in, Extra: map[string]string{"mode": mode}})
				if _, already := s.Held[k]; already {
					e.structural(e.FnKey+"/self-deadlock", "lock-order", in.Pos(), "lock acquired while already held", false, "lock "+k+" acquired twice at "+e.P.Pos(in.Pos()))
				}
				s.Held[k] = mode
				e.guardAcquire(s, a, in)
			} else {
				e.guardRelease(s, a, in)
				delete(s.Held, k)
				e.event(s, Event{Kind: "unlock", What: k, Pos: e.P.Pos(in.Pos()), Instr: in})
			}
			return &Val{}
		})
	}
	lock("sync.RWMutex.Lock", "w", true)
	lock("sync.RWMutex.RLock", "r", true)
	lock("sync.Mutex.Lock", "w", true)
	lock("sync.RWMutex.Unlock", "w", false)
	lock("sync.RWMutex.RUnlock", "r", false)
	lock("sync.Mutex.Unlock", "w", false)

	// ---- bytes.Buffer (ghost length buflen) ----
	bufGrow := func(key string, amount func(e *Engine, s *State, c *ssa.CallCommon, args []*Val) string, result func(n string) *Val) {
		reg(key, []string{"GH!buflen"}, "buflen(b) grows by the number of bytes written; never fails", func(e *Engine, s *State, c *ssa.CallCommon, args []*Val, in ssa.Instruction) *Val {
			b := e.objRef(s, args[0])
			n := amount(e, s, c, args)
			g := e.heapGet(s, "GH!buflen", "(Array Int Int)")
			e.heapSet(s, "GH!buflen", "(Array Int Int)", app("store", g, b, app("+", app("select", g, b), n)))
			e.event(s, Event{Kind: "call", What: key, Args: args, ArgTypes: e.argTypesFor(args), Pos: e.P.Pos(in.Pos()), Instr: in})
			return result(n)
		})
	}
	nErr := func(n string) *Val {
		return &Val{Tup: []*Val{{L: []string{n}}, {L: []string{"0"}}}, L: []string{n, "0"}}
	}
	bufGrow("bytes.Buffer.Write", func(e *Engine, s *State, c *ssa.CallCommon, args []*Val) string { return args[1].L[2] }, nErr)
	bufGrow("bytes.Buffer.WriteString", func(e *Engine, s *State, c *ssa.CallCommon, args []*Val) string { return app("slen", args[1].L[0]) }, nErr)
	bufGrow("bytes.Buffer.WriteByte", func(e *Engine, s *State, c *ssa.CallCommon, args []*Val) string { return "1" }, func(n string) *Val { return &Val{L: []string{"0"}} })
	reg("bytes.Buffer.Len", nil, "result == buflen(b) >= 0", func(e *Engine, s *State, c *ssa.CallCommon, args []*Val, in ssa.Instruction) *Val {
		g := e.heapGet(s, "GH!buflen", "(Array Int Int)")
		r := e.define(s, "buflen", "Int", app("select", g, e.objRef(s, args[0])))
		s.assume(and(app(">=", r, "0"), app("<", r, "4611686018427387904")))
		return &Val{L: []string{r}}
	})
	reg("bytes.Buffer.Reset", []string{"GH!buflen"}, "buflen(b) == 0 afterwards", func(e *Engine, s *State, c *ssa.CallCommon, args []*Val, in ssa.Instruction) *Val {
		g := e.heapGet(s, "GH!buflen", "(Array Int Int)")
		e.heapSet(s, "GH!buflen", "(Array Int Int)", app("store", g, e.objRef(s, args[0]), "0"))
		return &Val{}
	})
	reg("bytes.Buffer.Bytes", []string{"Alloc"}, "result is a slice with len == buflen(b) (contents unconstrained)", func(e *Engine, s *State, c *ssa.CallCommon, args []*Val, in ssa.Instruction) *Val {
		g := e.heapGet(s, "GH!buflen", "(Array Int Int)")
		v := e.havocVal(s, c.Signature().Results().At(0).Type(), "bufbytes")
		s.assume(eq(v.L[2], app("select", g, e.objRef(s, args[0]))))
		s.assume(implies(app(">", v.L[2], "0"), app(">", v.L[0], "0")))
		e.assumeAllocatedVal(s, c.Signature().Results().At(0).Type(), v)
		return v
	})
	reg("atomic.AddUint64", []string{"C!uint64", "G!"}, "atomically adds delta and returns the new value (wrap-around at 2^64)", func(e *Engine, s *State, c *ssa.CallCommon, args []*Val, in ssa.Instruction) *Val {
		p := args[0]
		if p.A == nil {
			e.unsupportedf("atomic on unknown address")
		}
		old := e.load(s, p.A, nil)
		nv := e.define(s, "atomicnew", "Int", app("wrapu", app("+", old.L[0], args[1].L[0]), pow2(64)))
		e.store(s, p.A, &Val{L: []string{nv}}, nil)
		e.event(s, Event{Kind: "atomic", What: p.A.Key(), Pos: e.P.Pos(in.Pos()), Instr: in})
		return &Val{L: []string{nv}}
	})
}

// purePrefixes: externals whose calls have no heap effect and unconstrained results.
var purePrefixes = []string{"logrus.", "strings.", "strconv.", "unicode.", "utf8.", "path.", "filepath.", "sort.Search", "time.Duration.", "time.Time.", "base64.", "math.", "url.", "textproto.", "reflect.TypeOf", "reflect.DeepEqual"}

func isPureExternal(key string) bool {
	for _, p := range purePrefixes {
		if strings.HasPrefix(key, p) {
			return true
		}
	}
	return false
}

// guardAcquire havocs the fields protected by the lock at a and assumes the guard invariants.
func (e *Engine) guardAcquire(s *State, a *Addr, in ssa.Instruction) {
	for _, g := range e.C.Guards {
		if a.K != AField || g.Struct != a.SKey || "."+g.Lock != a.Path {
			continue
		}
		st := e.structTypeByKey(g.Struct)
		if st == nil {
			e.unsupportedf("guard on unknown struct %s", g.Struct)
		}
		private := s.FreshRefs[a.Base] || e.Exclusive // sequential pass: no interference on any object
		for _, f := range g.Fields {
			ft := fieldTypeByPath(st, "."+f)
			if ft == nil {
				e.unsupportedf("guard field %s.%s not found", g.Struct, f)
			}
			if private {
				continue
			}
			for _, lf := range e.leaves(ft) {
				name, sortS := e.heapNameField(g.Struct, "."+f, lf.Path), "(Array Int "+lf.Sort+")"
				nv := e.declare(s, "guarded_"+f, lf.Sort)
				e.interfere(s, name, sortS, a.Base, nv)
			}
			fv := e.load(s, &Addr{K: AField, Base: a.Base, SKey: g.Struct, Path: "." + f, T: ft}, nil)
			if mt, ok := ft.Underlying().(*types.Map); ok {
				e.interfereMapAt(s, mt, fv.L[0])
			}
		}
		e.assumeGuardInv(s, g, a, st)
	}
}

func (e *Engine) guardCtx(s *State, g *Guard, a *Addr, st types.Type) *SpecCtx {
	self := &SV{V: &Val{L: []string{a.Base}, NN: true}, T: types.NewPointer(st)}
	return &SpecCtx{Fn: s.top().Fn, Params: map[string]*Val{}, PTypes: map[string]types.Type{}, Bound: map[string]*SV{}, Self: self}
}

func (e *Engine) assumeGuardInv(s *State, g *Guard, a *Addr, st types.Type) {
	ctx := e.guardCtx(s, g, a, st)
	for _, inv := range g.Inv {
		s.assume(e.evalBool(s, ctx, inv.Expr))
	}
}

func (e *Engine) guardRelease(s *State, a *Addr, in ssa.Instruction) {
	for _, g := range e.C.Guards {
		if a.K != AField || g.Struct != a.SKey || "."+g.Lock != a.Path {
			continue
		}
		st := e.structTypeByKey(g.Struct)
		ctx := e.guardCtx(s, g, a, st)
		for k, inv := range g.Inv {
			name := e.oblName(s, in, "lockinv")
			e.assert(s, fmt.Sprintf("%s.%d", name, k), "lockinv", in.Pos(), "guard invariant of "+g.Struct+"."+g.Lock+" at release: "+inv.Text, e.evalBool(s, ctx, inv.Expr))
		}
	}
}

func (e *Engine) structTypeByKey(key string) types.Type {
	i := strings.LastIndex(key, ".")
	pk, name := key[:i], key[i+1:]
	for _, p := range e.P.Pkgs {
		var found types.Type
		visitPkgs(p.Types, map[*types.Package]bool{}, func(tp *types.Package) {
			if found == nil && PkgShort(tp.Path()) == pk {
				if obj := tp.Scope().Lookup(name); obj != nil {
					found = obj.Type()
				}
			}
		})
		if found != nil {
			return found
		}
	}
	return nil
}

func visitPkgs(p *types.Package, seen map[*types.Package]bool, f func(*types.Package)) {
	if p == nil || seen[p] {
		return
	}
	seen[p] = true
	f(p)
	for _, im := range p.Imports() {
		visitPkgs(im, seen, f)
	}
}

// objRef is the identity of the object a pointer value points to. Embedded-by-value struct fields
// get an identity derived from the owning object.
func (e *Engine) objRef(s *State, v *Val) string {
	if len(v.L) > 0 {
		return v.L[0]
	}
	if v.A != nil && v.A.K == AField {
		f := "fobj!" + sanitize(v.A.SKey+v.A.Path)
		e.globalDecl("(declare-fun " + f + " (Int) Int)")
		return app(f, v.A.Base)
	}
	e.unsupportedf("pointer without object identity")
	return ""
}

// isReceiverBase: is the term the receiver of the function under verification?
func (e *Engine) isReceiverBase(base string) bool {
	if e.entryState == nil || e.Fn.Signature.Recv() == nil || len(e.Fn.Params) == 0 {
		return false
	}
	v := e.entryState.Entry[0].Params[e.Fn.Params[0].Name()]
	return v != nil && len(v.L) == 1 && v.L[0] == base
}
