package eng

import (
	"bytes"
	"context"
	"encoding/json"
	"fmt"
	"go/types"
	"os"
	"os/exec"
	"path/filepath"
	"regexp"
	"strconv"
	"strings"
	"time"
)

// ReplayResult describes the attempt to run a counter-model against the real code.
type ReplayResult struct {
	Reproduced bool
	Log        string
	TestFile   string
}

// receiverRecipes: how to build a receiver of a given type for a replay test (in-package Go source).
var receiverRecipes = map[string]string{
	"*lib.v0ProtocolMarshaler": "&v0ProtocolMarshaler{}",
	"*lib.fRegistryImpl":       "&fRegistryImpl{channels: make(map[uint64]chan []byte)}",
	"*lib.fBaseTransport":      "newFBaseTransport(0)",
	"*lib.fNatsTransport":      "&fNatsTransport{fBaseTransport: newFBaseTransport(0)}",
	"*lib.BaseFTransportMonitor": "",
}

const replayElems = 48

var panicKinds = map[string]bool{"slice": true, "index": true, "makelen": true, "nilmap-write": true, "nilderef": true, "typeassert": true, "div0": true, "callee-pre": true, "explicit-panic": true, "close-closed": true}

// Replay turns the counter-model of a failed safety obligation into an in-package Go test,
// injects it with go test -overlay and reports whether the real code panics.
func Replay(fr *FuncResult, o *OblResult, workdir string) ReplayResult {
	if why := notRenderable(fr); why != "" {
		return ReplayResult{Log: "no executable rendering of the counter-model: " + why + "\n"}
	}
	r := replayWith(fr, o, workdir)
	if r.Reproduced || !panicKinds[o.Kind] {
		return r
	}
	// The counter-model may describe an arbitrary loop iteration (state after havoc) that is not
	// reachable from the entry. Search for a reachable witness by bounded unrolling (2 iterations,
	// no invariants) and replay that instead. This is witness search only, never a proof.
	cfg := *fr.Engine.Cfg
	cfg.Unroll = 2
	e2 := NewEngine(fr.Engine.P, fr.Engine.C, fr.Fn, &cfg)
	func() {
		defer func() { recover() }()
		e2.generate()
	}()
	ob := e2.Obls[o.Name]
	if ob == nil {
		r.Log += "witness search (unroll 2): obligation not reached\n"
		return r
	}
	for qi, q := range ob.Queries {
		sr := Solve(workdir, fmt.Sprintf("witness.%s.q%d", o.Name, qi), e2.assemble(q, true), 10*time.Second, "")
		if sr.Result != "sat" {
			continue
		}
		fr2 := &FuncResult{Key: fr.Key, Fn: fr.Fn, Engine: e2}
		o2 := *o
		o2.FailQ = q
		r2 := replayWith(fr2, &o2, workdir)
		r2.Log = r.Log + "\n-- witness search by bounded unrolling (2 iterations) --\n" + r2.Log
		if r2.Reproduced {
			return r2
		}
		r = r2
	}
	return r
}

func replayWith(fr *FuncResult, o *OblResult, workdir string) ReplayResult {
	var log strings.Builder
	e := fr.Engine
	fn := fr.Fn
	if !panicKinds[o.Kind] {
		fmt.Fprintf(&log, "obligation kind %q has no executable rendering; the counter-model is in the solver output below\n", o.Kind)
		return ReplayResult{Log: log.String()}
	}
	if strings.Contains(o.Name, "/inl:") {
		// still replayable through the outer function
	}
	if e.entryState == nil || e.entryState.Entry[0] == nil {
		return ReplayResult{Log: "no entry snapshot"}
	}
	ent := e.entryState.Entry[0]
	// 1. ask for concrete values
	type want struct {
		param string
		what  string // leaf / elem k / slen / sat k
		term  string
	}
	var wants []want
	var small []string
	for _, p := range fn.Params {
		v := ent.Params[p.Name()]
		if v == nil {
			continue
		}
		switch u := p.Type().Underlying().(type) {
		case *types.Basic:
			if isStringT(p.Type()) {
				wants = append(wants, want{p.Name(), "slen", app("slen", v.L[0])})
				small = append(small, app("<=", app("slen", v.L[0]), num(replayElems)))
				for k := 0; k < replayElems; k++ {
					wants = append(wants, want{p.Name(), fmt.Sprintf("sat%d", k), app("sat", v.L[0], num(int64(k)))})
				}
			} else {
				wants = append(wants, want{p.Name(), "v", v.L[0]})
			}
		case *types.Slice:
			if b, ok := u.Elem().Underlying().(*types.Basic); ok && b.Kind() == types.Uint8 {
				wants = append(wants, want{p.Name(), "len", v.L[2]}, want{p.Name(), "cap", v.L[3]})
				small = append(small, app("<=", v.L[3], num(replayElems)))
				h := "H0!E!uint8"
				if e.entryState.Decl[h] || declaredIn(o.FailQ, h) {
					for k := 0; k < replayElems; k++ {
						wants = append(wants, want{p.Name(), fmt.Sprintf("el%d", k), app("select", app("select", h, v.L[0]), app("+", v.L[1], num(int64(k))))})
					}
				}
			}
		}
	}
	base := e.assemble(o.FailQ, true)
	var terms []string
	for _, w := range wants {
		terms = append(terms, w.term)
	}
	vals := map[string]string{}
	solved := false
	for _, withSmall := range []bool{true, false} {
		q := base
		if withSmall {
			for _, c := range small {
				q += "(assert " + c + ")\n"
			}
		}
		if len(terms) == 0 {
			solved = true
			break
		}
		file := filepath.Join(workdir, "replay_"+sanitize(o.Name)+".smt2")
		os.WriteFile(file, []byte(Prelude+q+"(check-sat)\n(get-value ("+strings.Join(terms, " ")+"))\n"), 0o644)
		ctx, cancel := context.WithTimeout(context.Background(), 20*time.Second)
		out, _ := exec.CommandContext(ctx, "z3-new", "-smt2", file).CombinedOutput()
		cancel()
		s := string(out)
		if !strings.HasPrefix(strings.TrimSpace(s), "sat") {
			fmt.Fprintf(&log, "model query (small=%v): %s\n", withSmall, firstLines(s, 2))
			continue
		}
		got := parseGetValue(s[strings.Index(s, "sat")+3:], len(terms))
		if len(got) != len(terms) {
			fmt.Fprintf(&log, "could not parse get-value output (%d of %d)\n", len(got), len(terms))
			continue
		}
		for i, w := range wants {
			vals[w.param+"."+w.what] = got[i]
		}
		solved = true
		break
	}
	if !solved {
		return ReplayResult{Log: log.String() + "no concrete model obtained\n"}
	}
	// 2. render the call
	var args []string
	var setup []string
	recvExpr := ""
	for i, p := range fn.Params {
		name := p.Name()
		if i == 0 && fn.Signature.Recv() != nil {
			key := types.TypeString(p.Type(), func(pk *types.Package) string { return PkgShort(pk.Path()) })
			rec, ok := receiverRecipes[key]
			if !ok || rec == "" {
				fmt.Fprintf(&log, "no receiver recipe for %s\n", key)
				return ReplayResult{Log: log.String()}
			}
			recvExpr = rec
			continue
		}
		switch u := p.Type().Underlying().(type) {
		case *types.Basic:
			if isStringT(p.Type()) {
				n := atoi(vals[name+".slen"])
				if n > replayElems {
					fmt.Fprintf(&log, "string %s too long in model (%d)\n", name, n)
					return ReplayResult{Log: log.String()}
				}
				var bs []string
				for k := 0; k < n; k++ {
					bs = append(bs, strconv.Itoa(((atoi(vals[fmt.Sprintf("%s.sat%d", name, k)])%256)+256)%256))
				}
				args = append(args, "string([]byte{"+strings.Join(bs, ",")+"})")
			} else if isBoolT(p.Type()) {
				args = append(args, vals[name+".v"])
			} else {
				args = append(args, fmt.Sprintf("%s(%s)", types.TypeString(p.Type(), func(pk *types.Package) string { return "" }), smtIntToGo(vals[name+".v"])))
			}
		case *types.Slice:
			if b, ok := u.Elem().Underlying().(*types.Basic); ok && b.Kind() == types.Uint8 {
				ln, cp := atoi(vals[name+".len"]), atoi(vals[name+".cap"])
				if cp > 1<<20 || ln > replayElems {
					fmt.Fprintf(&log, "slice %s too large in model (len %d cap %d)\n", name, ln, cp)
					return ReplayResult{Log: log.String()}
				}
				var bs []string
				for k := 0; k < ln; k++ {
					bs = append(bs, strconv.Itoa(((atoi(vals[fmt.Sprintf("%s.el%d", name, k)])%256)+256)%256))
				}
				setup = append(setup, fmt.Sprintf("%s_arr := make([]byte, %d, %d)", name, ln, max(cp, ln)))
				setup = append(setup, fmt.Sprintf("copy(%s_arr, []byte{%s})", name, strings.Join(bs, ",")))
				args = append(args, name+"_arr")
			} else {
				fmt.Fprintf(&log, "parameter %s of type %s is not renderable\n", name, p.Type())
				return ReplayResult{Log: log.String()}
			}
		case *types.Map:
			args = append(args, types.TypeString(p.Type(), func(pk *types.Package) string { return "" })+"{}")
		default:
			fmt.Fprintf(&log, "parameter %s of type %s is not renderable\n", name, p.Type())
			return ReplayResult{Log: log.String()}
		}
	}
	call := fn.Name() + "(" + strings.Join(args, ", ") + ")"
	if recvExpr != "" {
		call = "(" + recvExpr + ")." + call
	}
	pkgName := fn.Pkg.Pkg.Name()
	src := fmt.Sprintf(`package %s

import (
	"fmt"
	"testing"
)

// generated by govc from the counter-model of obligation %s
func TestGovcReplay(t *testing.T) {
	defer func() {
		if r := recover(); r != nil {
			fmt.Printf("GOVC-REPLAY-PANIC: %%v\n", r)
		}
	}()
	%s
	%s
	fmt.Println("GOVC-REPLAY-NOPANIC")
}
`, pkgName, o.Name, strings.Join(setup, "\n\t"), call)
	// 3. run it
	pkgDir := ""
	for _, pk := range e.P.OwnPackages() {
		if pk.Types == fn.Pkg.Pkg && len(pk.GoFiles) > 0 {
			pkgDir = filepath.Dir(pk.GoFiles[0])
		}
	}
	if pkgDir == "" {
		return ReplayResult{Log: log.String() + "package directory not found\n", TestFile: src}
	}
	tfile := filepath.Join(workdir, "zz_govc_replay_test.go")
	os.WriteFile(tfile, []byte(src), 0o644)
	repl := map[string]string{filepath.Join(pkgDir, "zz_govc_replay_test.go"): tfile}
	for path, data := range e.P.Overlay {
		// the mutated sources of a self-test run are replayed too
		mf := filepath.Join(workdir, "ov_"+sanitize(path))
		os.WriteFile(mf, data, 0o644)
		repl[path] = mf
	}
	ov, _ := json.Marshal(map[string]interface{}{"Replace": repl})
	ovfile := filepath.Join(workdir, "replay_overlay.json")
	os.WriteFile(ovfile, ov, 0o644)
	ctx, cancel := context.WithTimeout(context.Background(), 180*time.Second)
	defer cancel()
	cmd := exec.CommandContext(ctx, "go", "test", "-v", "-overlay", ovfile, "-vet=off", "-count=1", "-timeout", "60s", "-run", "^TestGovcReplay$", ".")
	cmd.Dir = pkgDir
	cmd.Env = append(os.Environ(), "GOFLAGS=-mod=mod", "GOPROXY=off", "GOSUMDB=off", "GOTOOLCHAIN=local", "GOMEMLIMIT=2GiB")
	var out bytes.Buffer
	cmd.Stdout, cmd.Stderr = &out, &out
	cmd.Run()
	res := out.String()
	fmt.Fprintf(&log, "call: %s\nsetup: %s\n", call, strings.Join(setup, "; "))
	for _, l := range strings.Split(res, "\n") {
		if strings.Contains(l, "GOVC-REPLAY") || strings.Contains(l, "panic") || strings.Contains(l, "FAIL") || strings.HasPrefix(l, "ok") {
			fmt.Fprintln(&log, l)
		}
	}
	rep := strings.Contains(res, "GOVC-REPLAY-PANIC") || strings.Contains(res, "fatal error") || (strings.Contains(res, "panic:") && !strings.Contains(res, "GOVC-REPLAY-NOPANIC"))
	return ReplayResult{Reproduced: rep, Log: log.String(), TestFile: src}
}

func declaredIn(q *Query, name string) bool {
	if q == nil {
		return false
	}
	for _, l := range q.Lines {
		if strings.HasPrefix(l, "(declare-const "+name+" ") {
			return true
		}
	}
	return false
}

func atoi(s string) int {
	n, _ := strconv.Atoi(smtIntToGo(s))
	return n
}

var reNeg = regexp.MustCompile(`^\(\s*-\s*(\d+)\s*\)$`)

func smtIntToGo(s string) string {
	s = strings.TrimSpace(s)
	if m := reNeg.FindStringSubmatch(s); m != nil {
		return "-" + m[1]
	}
	return s
}

// parseGetValue parses "((term value) (term value) ...)" and returns the values in order.
func parseGetValue(s string, n int) []string {
	s = strings.TrimSpace(s)
	if !strings.HasPrefix(s, "(") {
		return nil
	}
	// split top-level pairs
	var out []string
	depth := 0
	start := -1
	for i := 0; i < len(s); i++ {
		switch s[i] {
		case '(':
			depth++
			if depth == 2 {
				start = i
			}
		case ')':
			if depth == 2 && start >= 0 {
				pair := s[start+1 : i]
				// value is the last top-level s-expression of the pair
				out = append(out, lastSexp(pair))
				start = -1
			}
			depth--
			if depth == 0 {
				return out
			}
		}
	}
	return out
}

func lastSexp(p string) string {
	p = strings.TrimSpace(p)
	if strings.HasSuffix(p, ")") {
		depth := 0
		for i := len(p) - 1; i >= 0; i-- {
			switch p[i] {
			case ')':
				depth++
			case '(':
				depth--
				if depth == 0 {
					return p[i:]
				}
			}
		}
	}
	i := strings.LastIndexAny(p, " \t\n")
	return p[i+1:]
}

// notRenderable says why a function's parameters cannot be built from a model ("" if they can).
func notRenderable(fr *FuncResult) string {
	fn := fr.Fn
	for i, p := range fn.Params {
		if i == 0 && fn.Signature.Recv() != nil {
			key := types.TypeString(p.Type(), func(pk *types.Package) string { return PkgShort(pk.Path()) })
			if rec, ok := receiverRecipes[key]; !ok || rec == "" {
				return "no receiver recipe for " + key
			}
			continue
		}
		switch u := p.Type().Underlying().(type) {
		case *types.Basic:
		case *types.Slice:
			if b, ok := u.Elem().Underlying().(*types.Basic); !ok || b.Kind() != types.Uint8 {
				return "parameter " + p.Name() + " of type " + p.Type().String()
			}
		case *types.Map:
		default:
			return "parameter " + p.Name() + " of type " + p.Type().String()
		}
	}
	if fn.Parent() != nil {
		return "anonymous function"
	}
	return ""
}
