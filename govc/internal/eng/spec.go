package eng

import (
	"fmt"
	"go/ast"
	"go/constant"
	"go/token"
	"go/types"
	"strconv"
	"strings"

	"golang.org/x/tools/go/ssa"
)

// SpecCtx says how identifiers of a contract expression are resolved.
type SpecCtx struct {
	Fn       *ssa.Function
	NoAlias  bool // names are not parameter names of Fn (interface contract at a call site)
	IterLocals map[*ssa.Alloc]*cell // set inside iterstart(): locals as they were at the start of the iteration
	Params   map[string]*Val // entry values
	PTypes   map[string]types.Type
	Results  []*Val
	RTypes   []types.Type
	RNames   []string
	UseLocals bool // resolve plain names to the current value of the local of that name (loop invariants)
	UseLocalsInOld bool
	ParamsFirst bool // postconditions: parameter names mean entry values; other names fall back to locals
	LoopSnap map[string]string // heap at the entry of the loop whose invariant is being evaluated
	InDefine  bool // inside the body of a defining equation (no further unfolding)
	AtCallSite bool // evaluating a callee's contract in a caller: trace functions speak about the callee's own path
	Frame    *Frame
	Bound    map[string]*SV
	InOld    bool
	OldHeap  map[string]string // nil: H0 constants
	OldEpoch bool
	SnapEpoch   int      // State.Epoch when OldHeap was taken
	SnapPending []string // State.pendingHavoc when OldHeap was taken
	Self     *SV // for guard invariants
}

// SV is an evaluated spec value.
type SV struct {
	V *Val
	T types.Type // may be nil for ghost ints/bools
	Sort string  // for single-leaf values
}

func (e *Engine) specCtx(s *State, fn *ssa.Function) *SpecCtx {
	fr := s.top()
	c := &SpecCtx{Fn: fn, Params: map[string]*Val{}, PTypes: map[string]types.Type{}, UseLocals: true, Frame: fr, Bound: map[string]*SV{}}
	if ent := s.Entry[fr.Depth]; ent != nil {
		c.Params = ent.Params
		c.PTypes = ent.PTypes
		c.OldHeap = ent.Heap
	}
	return c
}

type entrySnap struct {
	Params map[string]*Val
	PTypes map[string]types.Type
	Heap   map[string]string
}

func (e *Engine) evalBool(s *State, c *SpecCtx, x ast.Expr) string {
	v := e.eval(s, c, x)
	if v.Sort != "Bool" {
		e.unsupportedf("spec expression %s is not boolean", exprString(x))
	}
	return v.V.L[0]
}

func (e *Engine) evalTerm(s *State, c *SpecCtx, x ast.Expr) string {
	v := e.eval(s, c, x)
	if len(v.V.L) != 1 {
		e.unsupportedf("spec expression %s is not scalar", exprString(x))
	}
	return v.V.L[0]
}

func exprString(x ast.Expr) string {
	return types.ExprString(x)
}

func svBool(t string) *SV { return &SV{V: &Val{L: []string{t}}, Sort: "Bool", T: types.Typ[types.Bool]} }
func svInt(t string) *SV  { return &SV{V: &Val{L: []string{t}}, Sort: "Int", T: types.Typ[types.Int]} }

func (e *Engine) svOf(v *Val, t types.Type) *SV {
	sv := &SV{V: v, T: t}
	if t != nil {
		ls := e.leaves(t)
		if len(ls) == 1 {
			sv.Sort = ls[0].Sort
		}
	}
	return sv
}

func (e *Engine) eval(s *State, c *SpecCtx, x ast.Expr) *SV {
	switch n := x.(type) {
	case *ast.ParenExpr:
		return e.eval(s, c, n.X)
	case *ast.BasicLit:
		switch n.Kind {
		case token.INT:
			return svInt(bigNum(n.Value))
		case token.STRING:
			str, _ := strconv.Unquote(n.Value)
			return &SV{V: &Val{L: []string{e.strLit(str)}}, Sort: "Str", T: types.Typ[types.String]}
		}
	case *ast.Ident:
		return e.evalIdent(s, c, n.Name)
	case *ast.UnaryExpr:
		v := e.eval(s, c, n.X)
		switch n.Op {
		case token.NOT:
			return svBool(not(v.V.L[0]))
		case token.SUB:
			return svInt(app("-", v.V.L[0]))
		}
	case *ast.BinaryExpr:
		return e.evalBinary(s, c, n)
	case *ast.SelectorExpr:
		// package-qualified constant?
		if id, ok := n.X.(*ast.Ident); ok {
			if pk := e.lookupImport(c.Fn, id.Name); pk != nil {
				if obj := pk.Scope().Lookup(n.Sel.Name); obj != nil {
					if cn, ok := obj.(*types.Const); ok {
						return e.constSV(cn)
					}
				}
			}
		}
		base := e.eval(s, c, n.X)
		return e.evalField(s, c, base, n.Sel.Name)
	case *ast.IndexExpr:
		base := e.eval(s, c, n.X)
		idx := e.eval(s, c, n.Index)
		return e.evalIndex(s, c, base, idx)
	case *ast.CallExpr:
		return e.evalCall(s, c, n)
	}
	e.unsupportedf("spec expression %s (%T)", exprString(x), x)
	return nil
}

func (e *Engine) lookupImport(fn *ssa.Function, name string) *types.Package {
	if fn == nil || fn.Pkg == nil {
		return nil
	}
	for _, imp := range fn.Pkg.Pkg.Imports() {
		if imp.Name() == name {
			return imp
		}
	}
	return nil
}

func (e *Engine) constSV(cn *types.Const) *SV {
	switch cn.Val().Kind() {
	case constant.Int:
		return &SV{V: &Val{L: []string{bigNum(cn.Val().ExactString())}}, Sort: "Int", T: cn.Type()}
	case constant.Bool:
		return svBool(fmt.Sprint(constant.BoolVal(cn.Val())))
	case constant.String:
		return &SV{V: &Val{L: []string{e.strLit(constant.StringVal(cn.Val()))}}, Sort: "Str", T: types.Typ[types.String]}
	}
	e.unsupportedf("constant %s", cn)
	return nil
}

func (e *Engine) evalIdent(s *State, c *SpecCtx, name string) *SV {
	if b, ok := c.Bound[name]; ok {
		return b
	}
	aliased := false
	if !c.NoAlias {
		orig := name
		name = e.actualParamName(c.Fn, name)
		// a parameter the source happens to call "result" is reached through its positional name
		aliased = name != orig
	}
	switch name {
	case "true", "false":
		return svBool(name)
	case "nil":
		return &SV{V: &Val{L: []string{"0"}}, Sort: "Int"}
	case "self":
		if c.Self != nil {
			return c.Self
		}
	}
	// results
	if c.Results != nil && !aliased {
		if name == "result" && len(c.Results) > 0 {
			return e.svOf(c.Results[0], c.RTypes[0])
		}
		if strings.HasPrefix(name, "result") {
			if k, err := strconv.Atoi(name[6:]); err == nil && k < len(c.Results) {
				return e.svOf(c.Results[k], c.RTypes[k])
			}
		}
		for i, rn := range c.RNames {
			if rn == name {
				return e.svOf(c.Results[i], c.RTypes[i])
			}
		}
		if _, isParam := c.Params[name]; name == "err" && !isParam {
			for i := len(c.RTypes) - 1; i >= 0; i-- {
				if types.TypeString(c.RTypes[i], nil) == "error" {
					return e.svOf(c.Results[i], c.RTypes[i])
				}
			}
		}
	}
	// current locals (loop invariants, own-function context)
	if c.ParamsFirst {
		if v, ok := c.Params[name]; ok {
			return e.svOf(v, c.PTypes[name])
		}
	}
	if c.UseLocals && c.Frame != nil && (!c.InOld || c.UseLocalsInOld) {
		if sv := e.localByName(s, c, name); sv != nil {
			return sv
		}
	}
	if v, ok := c.Params[name]; ok {
		return e.svOf(v, c.PTypes[name])
	}
	if strings.HasSuffix(name, "0") {
		if v, ok := c.Params[name[:len(name)-1]]; ok {
			return e.svOf(v, c.PTypes[name[:len(name)-1]])
		}
	}
	// package-level constants and variables
	if c.Fn != nil && c.Fn.Pkg != nil {
		if obj := c.Fn.Pkg.Pkg.Scope().Lookup(name); obj != nil {
			switch o := obj.(type) {
			case *types.Const:
				return e.constSV(o)
			case *types.Var:
				if g, ok := c.Fn.Pkg.Members[name].(*ssa.Global); ok {
					a := &Addr{K: AGlobal, Glob: g, T: o.Type()}
					return e.svOf(e.specLoad(s, c, a), o.Type())
				}
			}
		}
	}
	if g, ok := s.Ghost[name]; ok {
		return svInt(g)
	}
	// a local of the function that is not live on this path (or not visible from a caller): the
	// clause does not apply here
	if c.Fn != nil {
		for _, b := range c.Fn.Blocks {
			for _, in := range b.Instrs {
				if al, ok := in.(*ssa.Alloc); ok && al.Comment == name {
					panic(clauseNotApplicable{name})
				}
			}
		}
	}
	e.unsupportedf("spec identifier %q not resolvable in %s", name, c.Fn)
	return nil
}

func (e *Engine) localByName(s *State, c *SpecCtx, name string) *SV {
	fn := c.Frame.Fn
	var found *ssa.Alloc
	for _, b := range fn.Blocks {
		for _, in := range b.Instrs {
			if al, ok := in.(*ssa.Alloc); ok && al.Comment == name {
				if _, live := c.Frame.Vals[al]; live {
					found = al // innermost/latest live declaration wins
				}
			}
		}
	}
	if found == nil {
		return nil
	}
	p := c.Frame.Vals[found]
	t := deref(found.Type())
	if c.IterLocals != nil {
		// iterstart(local): the value the local had at the start of the iteration (locals that did not
		// exist yet keep their current value)
		if cl, ok := c.IterLocals[found]; ok && cl != nil {
			return e.svOf(&Val{L: cl.L, NN: cl.NN}, t)
		}
	}
	return e.svOf(e.loadPtr(s, p, found.Type(), nil), t)
}

// specLoad reads memory in the current or the old heap.
func (e *Engine) specLoad(s *State, c *SpecCtx, a *Addr) *Val {
	if !c.InOld {
		sv := e.load(s, a, nil)
		return sv
	}
	v := &Val{}
	for _, l := range e.leaves(a.T) {
		var name, sortS string
		switch a.K {
		case AField:
			name, sortS = e.heapNameField(a.SKey, a.Path, l.Path), "(Array Int "+l.Sort+")"
		case AElem:
			name, sortS = "E!"+typeKey(a.T)+l.Path, "(Array Int (Array Int "+l.Sort+"))"
		case ACell:
			name, sortS = "C!"+typeKey(a.T)+l.Path, "(Array Int "+l.Sort+")"
		case AGlobal:
			name, sortS = "G!"+sanitize(a.Glob.String())+sanitize(a.Path)+l.Path, l.Sort
		}
		h := e.oldHeap(s, c, name, sortS)
		switch a.K {
		case AField, ACell:
			v.L = append(v.L, app("select", h, a.Base))
		case AElem:
			v.L = append(v.L, app("select", app("select", h, a.Base), a.Idx))
		case AGlobal:
			v.L = append(v.L, h)
		}
	}
	return v
}

func (e *Engine) oldHeap(s *State, c *SpecCtx, name, sortS string) string {
	if c.OldHeap != nil {
		if h, ok := c.OldHeap[name]; ok {
			return h
		}
		if c.OldEpoch {
			// not touched before the snapshot was taken
			e.regHeap(name, sortS)
			pend := c.SnapEpoch > 0
			for _, pre := range c.SnapPending {
				if strings.HasPrefix(name, pre) {
					pend = true
				}
			}
			var h string
			if pend {
				// its value at snapshot time is unknown (an earlier havoc covered it): a fresh constant
				h = e.declare(s, "Hsnap!"+name, sortS)
			} else {
				h = "H0!" + name
				if !s.Decl[h] {
					s.Decl[h] = true
					s.add("(declare-const " + h + " " + sortS + ")")
				}
			}
			if _, cur := s.Heap[name]; !cur {
				// also never touched since: the current value is that same value
				s.Heap[name] = h
			}
			c.OldHeap[name] = h
			return h
		}
	}
	return e.heapOld(s, name, sortS)
}

func (e *Engine) specHeap(s *State, c *SpecCtx, name, sortS string) string {
	if c.InOld {
		return e.oldHeap(s, c, name, sortS)
	}
	return e.heapGet(s, name, sortS)
}

// FieldAlias: "pkg.Struct.old" -> "new" for struct fields that were renamed since the contracts were
// written (derived by position from the recorded field lists, see LoadFieldAliases).
var FieldAlias = map[string]string{}

func aliasField(t types.Type, field string) string {
	if len(FieldAlias) == 0 || t == nil {
		return field
	}
	if p, ok := t.Underlying().(*types.Pointer); ok {
		t = p.Elem()
	}
	st, ok := t.Underlying().(*types.Struct)
	if !ok {
		return field
	}
	for i := 0; i < st.NumFields(); i++ {
		if st.Field(i).Name() == field {
			return field
		}
	}
	if n, ok := FieldAlias[structKey(t)+"."+field]; ok {
		return n
	}
	return field
}

func (e *Engine) evalField(s *State, c *SpecCtx, base *SV, field string) *SV {
	if base.T == nil {
		e.unsupportedf("field %s of untyped spec value", field)
	}
	field = aliasField(base.T, field)
	t := base.T
	if p, ok := t.Underlying().(*types.Pointer); ok {
		st, ok := p.Elem().Underlying().(*types.Struct)
		if !ok {
			e.unsupportedf("field %s of %s", field, t)
		}
		for i := 0; i < st.NumFields(); i++ {
			if st.Field(i).Name() == field {
				var a *Addr
				if base.V.A != nil && base.V.A.K == AField {
					a = &Addr{K: AField, Base: base.V.A.Base, SKey: base.V.A.SKey, Path: base.V.A.Path + "." + field, T: st.Field(i).Type()}
				} else {
					a = &Addr{K: AField, Base: base.V.L[0], SKey: structKey(p.Elem()), Path: "." + field, T: st.Field(i).Type()}
				}
				ft := st.Field(i).Type()
				if _, isStruct := ft.Underlying().(*types.Struct); isStruct {
					// keep as address so nested selection works
					return &SV{V: &Val{A: a}, T: types.NewPointer(ft)}
				}
				return e.svOf(e.specLoad(s, c, a), ft)
			}
		}
		// promoted through embedded fields
		for i := 0; i < st.NumFields(); i++ {
			f := st.Field(i)
			if f.Embedded() {
				inner := e.evalField(s, c, base, f.Name())
				if hasField(inner.T, field) {
					return e.evalField(s, c, inner, field)
				}
			}
		}
		e.unsupportedf("no field %s in %s", field, t)
	}
	if st, ok := t.Underlying().(*types.Struct); ok {
		off := 0
		for i := 0; i < st.NumFields(); i++ {
			n := len(e.leaves(st.Field(i).Type()))
			if st.Field(i).Name() == field {
				return e.svOf(&Val{L: base.V.L[off : off+n]}, st.Field(i).Type())
			}
			off += n
		}
	}
	e.unsupportedf("field %s of %s", field, t)
	return nil
}

func hasField(t types.Type, name string) bool {
	if t == nil {
		return false
	}
	if p, ok := t.Underlying().(*types.Pointer); ok {
		t = p.Elem()
	}
	st, ok := t.Underlying().(*types.Struct)
	if !ok {
		return false
	}
	name = aliasField(t, name)
	for i := 0; i < st.NumFields(); i++ {
		if st.Field(i).Name() == name {
			return true
		}
		if st.Field(i).Embedded() && hasField(st.Field(i).Type(), name) {
			return true
		}
	}
	return false
}

func (e *Engine) evalIndex(s *State, c *SpecCtx, base, idx *SV) *SV {
	if base.T == nil {
		e.unsupportedf("index of untyped spec value")
	}
	switch u := base.T.Underlying().(type) {
	case *types.Slice:
		a := &Addr{K: AElem, Base: base.V.L[0], Idx: app("+", base.V.L[1], idx.V.L[0]), T: u.Elem()}
		return e.svOf(e.specLoad(s, c, a), u.Elem())
	case *types.Map:
		_, _, ks := e.mapNames(u)
		// Go semantics: a missing key (or a nil map) yields the zero value
		md, _, _ := e.mapNames(u)
		hd := e.specHeap(s, c, md, "(Array Int (Array "+ks+" Bool))")
		in := and(not(eq(base.V.L[0], "0")), app("select", app("select", hd, base.V.L[0]), idx.V.L[0]))
		v := &Val{}
		for _, lf := range e.leaves(u.Elem()) {
			h := e.specHeap(s, c, e.mapValName(u, lf.Path), "(Array Int (Array "+ks+" "+lf.Sort+"))")
			v.L = append(v.L, app("ite", in, app("select", app("select", h, base.V.L[0]), idx.V.L[0]), zeroOfSort(lf.Sort)))
		}
		return e.svOf(v, u.Elem())
	case *types.Basic:
		if isStringT(base.T) {
			return svInt(app("sat", base.V.L[0], idx.V.L[0]))
		}
	}
	e.unsupportedf("spec index on %s", base.T)
	return nil
}

func (e *Engine) evalBinary(s *State, c *SpecCtx, n *ast.BinaryExpr) *SV {
	a := e.eval(s, c, n.X)
	b := e.eval(s, c, n.Y)
	A, B := a.V.L, b.V.L
	switch n.Op {
	case token.LAND:
		return svBool(and(A[0], B[0]))
	case token.LOR:
		return svBool(or(A[0], B[0]))
	case token.EQL, token.NEQ:
		var t string
		if len(A) == 4 && len(B) == 1 && B[0] == "0" { // slice == nil
			t = eq(A[0], "0")
		} else if len(A) != len(B) {
			e.unsupportedf("comparison of different shapes in %s", exprString(n))
		} else {
			var cs []string
			for i := range A {
				cs = append(cs, eq(A[i], B[i]))
			}
			t = and(cs...)
		}
		if n.Op == token.NEQ {
			t = not(t)
		}
		return svBool(t)
	case token.LSS:
		return svBool(app("<", A[0], B[0]))
	case token.LEQ:
		return svBool(app("<=", A[0], B[0]))
	case token.GTR:
		return svBool(app(">", A[0], B[0]))
	case token.GEQ:
		return svBool(app(">=", A[0], B[0]))
	case token.ADD:
		if a.Sort == "Str" {
			return &SV{V: &Val{L: []string{app("sconcat", A[0], B[0])}}, Sort: "Str", T: types.Typ[types.String]}
		}
		return svInt(app("+", A[0], B[0]))
	case token.SUB:
		return svInt(app("-", A[0], B[0]))
	case token.MUL:
		return svInt(app("*", A[0], B[0]))
	case token.QUO:
		return svInt(app("tdiv", A[0], B[0]))
	case token.REM:
		return svInt(app("tmod", A[0], B[0]))
	}
	e.unsupportedf("spec operator %s", n.Op)
	return nil
}

// ghostHeaps are per-object ghost fields usable as f(obj) in contracts.
var ghostHeaps = map[string]string{
	"buflen":  "Int", // bytes held by a *bytes.Buffer
	"opened":  "Int", // number of Open attempts on a transport
	"consumed": "Int", // bytes taken from an io.Reader
	"atype":    "Int", // type id of a (mutable) TApplicationException
	"drained":  "Int", // number of Drain calls on a NATS subscription
	"errflag":  "Bool", // a ValidationLogger has logged at least one error
}

func (e *Engine) evalCall(s *State, c *SpecCtx, n *ast.CallExpr) *SV {
	fname := ""
	if id, ok := n.Fun.(*ast.Ident); ok {
		fname = id.Name
	} else {
		e.unsupportedf("spec call %s", exprString(n))
	}
	arg := func(i int) *SV { return e.eval(s, c, n.Args[i]) }
	switch fname {
	case "implies":
		return svBool(implies(arg(0).V.L[0], arg(1).V.L[0]))
	case "iff":
		return svBool(eq(arg(0).V.L[0], arg(1).V.L[0]))
	case "ite":
		cnd, a, b := arg(0), arg(1), arg(2)
		r := &SV{V: &Val{}, T: a.T, Sort: a.Sort}
		for i := range a.V.L {
			r.V.L = append(r.V.L, app("ite", cnd.V.L[0], a.V.L[i], b.V.L[i]))
		}
		return r
	case "old":
		c2 := *c
		c2.InOld = true
		return e.eval(s, &c2, n.Args[0])
	case "iterstart":
		// value of the expression in the heap as it was at the start of the current loop iteration
		if s.IterHeap == nil {
			e.unsupportedf("iterstart() outside a loop")
		}
		c2 := *c
		c2.InOld = true
		c2.OldHeap = s.IterHeap
		c2.OldEpoch = true
		c2.UseLocalsInOld = true
		c2.IterLocals = s.IterLocals
		return e.eval(s, &c2, n.Args[0])
	case "loopentry":
		// value of the expression in the heap as it was when the loop was entered (locals: current)
		if c.LoopSnap == nil {
			e.unsupportedf("loopentry() outside a loop invariant")
		}
		c2 := *c
		c2.InOld = true
		c2.OldHeap = c.LoopSnap
		c2.OldEpoch = true
		c2.UseLocalsInOld = true
		return e.eval(s, &c2, n.Args[0])
	case "len":
		a := arg(0)
		if a.T != nil {
			switch u := a.T.Underlying().(type) {
			case *types.Slice:
				return svInt(a.V.L[2])
			case *types.Map:
				_, ml, _ := e.mapNames(u)
				h := e.specHeap(s, c, ml, "(Array Int Int)")
				return svInt(app("ite", eq(a.V.L[0], "0"), "0", app("select", h, a.V.L[0])))
			}
		}
		if a.Sort == "Str" {
			return svInt(app("slen", a.V.L[0]))
		}
		e.unsupportedf("len of %s", exprString(n.Args[0]))
	case "cap":
		return svInt(arg(0).V.L[3])
	case "has":
		m, k := arg(0), arg(1)
		mt := m.T.Underlying().(*types.Map)
		md, _, ks := e.mapNames(mt)
		h := e.specHeap(s, c, md, "(Array Int (Array "+ks+" Bool))")
		return svBool(and(not(eq(m.V.L[0], "0")), app("select", app("select", h, m.V.L[0]), k.V.L[0])))
	case "dom":
		m := arg(0)
		mt := m.T.Underlying().(*types.Map)
		md, _, ks := e.mapNames(mt)
		h := e.specHeap(s, c, md, "(Array Int (Array "+ks+" Bool))")
		return &SV{V: &Val{L: []string{app("ite", eq(m.V.L[0], "0"), "((as const (Array "+ks+" Bool)) false)", app("select", h, m.V.L[0]))}}, Sort: "(Array " + ks + " Bool)"}
	case "setadd":
		// setadd(S, k): the set S with k added (S a dom(...) value)
		return &SV{V: &Val{L: []string{app("store", arg(0).V.L[0], arg(1).V.L[0], "true")}}, Sort: arg(0).Sort}
	case "forallref":
		// forallref(k, body): for every reference / integer k
		id := n.Args[0].(*ast.Ident).Name
		q := "q!" + id
		c2 := *c
		c2.Bound = map[string]*SV{}
		for k, v := range c.Bound {
			c2.Bound[k] = v
		}
		c2.Bound[id] = svInt(q)
		body := e.evalBool(s, &c2, n.Args[1])
		return svBool(fmt.Sprintf("(forall ((%s Int)) %s)", q, body))
	case "bstr":
		// bstr(s, i, n): the string made of the n bytes of slice s starting at index i
		sl, ix, ln := arg(0), arg(1), arg(2)
		u := sl.T.Underlying().(*types.Slice)
		h := e.specHeap(s, c, "E!"+typeKey(u.Elem()), "(Array Int (Array Int Int))")
		e.globalDecl("(declare-fun bstr ((Array Int Int) Int Int) Str)")
		return &SV{V: &Val{L: []string{app("bstr", app("select", h, sl.V.L[0]), app("+", sl.V.L[1], ix.V.L[0]), ln.V.L[0])}}, Sort: "Str", T: types.Typ[types.String]}
	case "elems":
		// elems(s): the backing array of slice s (as an SMT array); off(s): index of s[0] in it
		sl := arg(0)
		u := sl.T.Underlying().(*types.Slice)
		lf := e.leaves(u.Elem())[0]
		h := e.specHeap(s, c, "E!"+typeKey(u.Elem())+lf.Path, "(Array Int (Array Int "+lf.Sort+"))")
		return &SV{V: &Val{L: []string{app("select", h, sl.V.L[0])}}, Sort: "(Array Int " + lf.Sort + ")"}
	case "subslice":
		// subslice(s, lo): the slice s[lo:]
		sl, lo := arg(0), arg(1)
		return &SV{V: &Val{L: []string{sl.V.L[0], app("+", sl.V.L[1], lo.V.L[0]), app("-", sl.V.L[2], lo.V.L[0]), app("-", sl.V.L[3], lo.V.L[0])}}, T: sl.T}
	case "off":
		return svInt(arg(0).V.L[1])
	case "ptr":
		// ptr(x, "pkg.Type"): read the reference x as a *pkg.Type
		lit := n.Args[1].(*ast.BasicLit)
		name, _ := strconv.Unquote(lit.Value)
		t := e.structTypeByKey(name)
		if t == nil {
			e.unsupportedf("ptr: unknown type %s", name)
		}
		return &SV{V: &Val{L: []string{arg(0).V.L[0]}}, T: types.NewPointer(t), Sort: "Int"}
	case "cast":
		// cast(x, "pkg.Type"): the *pkg.Type held by interface value x
		lit := n.Args[1].(*ast.BasicLit)
		name, _ := strconv.Unquote(lit.Value)
		t := e.structTypeByKey(name)
		if t == nil {
			e.unsupportedf("cast: unknown type %s", name)
		}
		return &SV{V: &Val{L: []string{app("iref", arg(0).V.L[0])}}, T: types.NewPointer(t), Sort: "Int"}
	case "forallkey":
		// forallkey(k, body): for every string key k
		id := n.Args[0].(*ast.Ident).Name
		q := "q!" + id
		c2 := *c
		c2.Bound = map[string]*SV{}
		for k, v := range c.Bound {
			c2.Bound[k] = v
		}
		if len(n.Args) == 3 {
			// forallkey(k, m, body): for every key k of the key type of the map m
			mt, ok := arg(1).T.Underlying().(*types.Map)
			if !ok {
				e.unsupportedf("forallkey: second argument is not a map in %s", c.Fn)
			}
			_, _, ks := e.mapNames(mt)
			c2.Bound[id] = &SV{V: &Val{L: []string{q}}, Sort: ks, T: mt.Key()}
			body := e.evalBool(s, &c2, n.Args[2])
			return svBool(fmt.Sprintf("(forall ((%s %s)) %s)", q, ks, body))
		}
		c2.Bound[id] = &SV{V: &Val{L: []string{q}}, Sort: "Str", T: types.Typ[types.String]}
		body := e.evalBool(s, &c2, n.Args[1])
		return svBool(fmt.Sprintf("(forall ((%s Str)) %s)", q, body))
	case "member":
		// member(S, k): k is in the set S (a dom(...) or visited(...) value)
		return svBool(app("select", arg(0).V.L[0], arg(1).V.L[0]))
	case "vals":
		m := arg(0)
		mt := m.T.Underlying().(*types.Map)
		_, _, ks := e.mapNames(mt)
		lf := e.leaves(mt.Elem())[0]
		h := e.specHeap(s, c, e.mapValName(mt, lf.Path), "(Array Int (Array "+ks+" "+lf.Sort+"))")
		return &SV{V: &Val{L: []string{app("select", h, m.V.L[0])}}, Sort: "(Array " + ks + " " + lf.Sort + ")"}
	case "forall", "exists":
		// forall(i, lo, hi, body)
		id := n.Args[0].(*ast.Ident).Name
		lo, hi := arg(1).V.L[0], arg(2).V.L[0]
		q := "q!" + id
		c2 := *c
		c2.Bound = map[string]*SV{}
		for k, v := range c.Bound {
			c2.Bound[k] = v
		}
		c2.Bound[id] = svInt(q)
		body := e.evalBool(s, &c2, n.Args[3])
		rng := and(app("<=", lo, q), app("<", q, hi))
		if fname == "forall" {
			return svBool(fmt.Sprintf("(forall ((%s Int)) %s)", q, implies(rng, body)))
		}
		return svBool(fmt.Sprintf("(exists ((%s Int)) %s)", q, and(rng, body)))
	case "ttype":
		return svInt(app(fname, arg(0).V.L[0]))
	case "ncalls":
		if c.AtCallSite {
			panic(clauseNotApplicable{"ncalls at call site"})
		}
		// ncalls("callee key"): number of calls to that callee on this path (trace ghost)
		lit := n.Args[0].(*ast.BasicLit)
		name, _ := strconv.Unquote(lit.Value)
		cnt := 0
		for _, ev := range s.Trace {
			if ev.Kind == "call" && ev.What == name {
				cnt++
			}
		}
		return svInt(num(int64(cnt)))
	case "callret":
		if c.AtCallSite {
			panic(clauseNotApplicable{"callret at call site"})
		}
		// callret("callee key", k, i): i-th result of the k-th call to that callee on this path
		lit := n.Args[0].(*ast.BasicLit)
		name, _ := strconv.Unquote(lit.Value)
		k, _ := strconv.Atoi(n.Args[1].(*ast.BasicLit).Value)
		ai, _ := strconv.Atoi(n.Args[2].(*ast.BasicLit).Value)
		cnt := 0
		for _, ev := range s.Trace {
			if ev.Kind == "call" && ev.What == name {
				if cnt == k && ai < len(ev.Rets) {
					if ai < len(ev.RetTypes) && ev.RetTypes[ai] != nil {
						return e.svOf(ev.Rets[ai], ev.RetTypes[ai])
					}
					return &SV{V: ev.Rets[ai], Sort: map[bool]string{true: "Int", false: ""}[len(ev.Rets[ai].L) == 1]}
				}
				cnt++
			}
		}
		panic(clauseNotApplicable{"callret " + name})
	case "callarg":
		if c.AtCallSite {
			panic(clauseNotApplicable{"callarg at call site"})
		}
		// callarg("callee key", k, i): i-th argument (receiver = 0) of the k-th call to that callee on this path
		lit := n.Args[0].(*ast.BasicLit)
		name, _ := strconv.Unquote(lit.Value)
		k, _ := strconv.Atoi(n.Args[1].(*ast.BasicLit).Value)
		ai, _ := strconv.Atoi(n.Args[2].(*ast.BasicLit).Value)
		if DroppedReceiver[name] && ai >= 1 {
			ai-- // the contract counted the receiver the function no longer has
		}
		cnt := 0
		for _, ev := range s.Trace {
			if ev.Kind == "call" && ev.What == name {
				if cnt == k && ai < len(ev.Args) {
					if ai < len(ev.ArgTypes) && ev.ArgTypes[ai] != nil {
						return e.svOf(ev.Args[ai], ev.ArgTypes[ai])
					}
					if len(ev.Args[ai].L) == 1 {
						return &SV{V: ev.Args[ai], Sort: "Int"}
					}
					return &SV{V: ev.Args[ai]}
				}
				cnt++
			}
		}
		// no such call on this path: the clause says nothing here
		panic(clauseNotApplicable{"callarg " + name})
	case "fresh":
		a := arg(0)
		al := e.oldHeap(s, c, "Alloc", "(Array Int Bool)")
		return svBool(and(not(eq(a.V.L[0], "0")), not(app("select", al, a.V.L[0]))))
	case "u32be":
		// u32be(slice, index)
		sl, ix := arg(0), arg(1)
		u := sl.T.Underlying().(*types.Slice)
		h := e.specHeap(s, c, "E!"+typeKey(u.Elem()), "(Array Int (Array Int Int))")
		arr := app("select", h, sl.V.L[0])
		at := func(k int) string { return app("select", arr, app("+", sl.V.L[1], ix.V.L[0], num(int64(k)))) }
		return svInt(app("+", app("*", "16777216", at(0)), app("*", "65536", at(1)), app("*", "256", at(2)), at(3)))
	case "min":
		return svInt(app("imin", arg(0).V.L[0], arg(1).V.L[0]))
	case "max":
		return svInt(app("imax", arg(0).V.L[0], arg(1).V.L[0]))
	case "typeis":
		// typeis(x, "pkg.Type")
		lit := n.Args[1].(*ast.BasicLit)
		name, _ := strconv.Unquote(lit.Value)
		return svBool(eq(app("ityp", arg(0).V.L[0]), e.typeTagByName(name)))
	case "implements":
		lit := n.Args[1].(*ast.BasicLit)
		name, _ := strconv.Unquote(lit.Value)
		k := "impl!" + name
		e.globalDecl("(declare-fun " + k + " (Int) Bool)")
		return svBool(app(k, app("ityp", arg(0).V.L[0])))
	case "held":
		// held(obj, "mu")
		lit := n.Args[1].(*ast.BasicLit)
		name, _ := strconv.Unquote(lit.Value)
		o := arg(0)
		key := "F!" + structKey(deref(o.T)) + "!." + name + "@" + o.V.L[0]
		_, ok := s.Held[key]
		return svBool(fmt.Sprint(ok))
	}
	if fd, ok := e.C.Folds[fname]; ok {
		m := arg(0)
		mt, isMap := m.T.Underlying().(*types.Map)
		if !isMap {
			e.unsupportedf("fold %s applied to a non-map", fname)
		}
		md, _, ks := e.mapNames(mt)
		lf := e.leaves(mt.Elem())[0]
		hd := e.specHeap(s, c, md, "(Array Int (Array "+ks+" Bool))")
		hv := e.specHeap(s, c, e.mapValName(mt, lf.Path), "(Array Int (Array "+ks+" "+lf.Sort+"))")
		set := app("ite", eq(m.V.L[0], "0"), "((as const (Array "+ks+" Bool)) false)", app("select", hd, m.V.L[0]))
		if len(n.Args) > 1 {
			set = arg(1).V.L[0]
		}
		ft := app(e.foldSym(fd, mt), set, app("select", hv, m.V.L[0]))
		s.assume(app(">=", ft, "0")) // a finite sum of non-negative weights
		return svInt(ft)
	}
	if fname == "visited" {
		m := arg(0)
		var best *iterState
		for _, it := range s.Iters {
			if it.MT == nil {
				continue
			}
			if it.Map.L[0] == m.V.L[0] || (it.Map.Src != "" && it.Map.Src == m.V.Src && it.Map.SrcBase == m.V.SrcBase) {
				best = it
			}
		}
		if best == nil {
			e.unsupportedf("visited(): no active range over that map")
		}
		return &SV{V: &Val{L: []string{best.V}}, Sort: "set"}
	}
	if pd, ok := e.C.Preds[fname]; ok {
		if len(pd.Params) != len(n.Args) {
			e.unsupportedf("pred %s arity", fname)
		}
		c2 := *c
		c2.Bound = map[string]*SV{}
		for k, v := range c.Bound {
			c2.Bound[k] = v
		}
		for i, pn := range pd.Params {
			c2.Bound[pn] = arg(i)
		}
		return e.eval(s, &c2, pd.Body.Expr)
	}
	switch fname {
	case "clen", "ccap":
		// channel ghosts: number of buffered elements / capacity
		name := map[string]string{"clen": "CL!", "ccap": "CC!"}[fname]
		h := e.specHeap(s, c, name, "(Array Int Int)")
		return svInt(app("select", h, arg(0).V.L[0]))
	case "cclosed":
		h := e.specHeap(s, c, "CX!", "(Array Int Bool)")
		return svBool(app("select", h, arg(0).V.L[0]))
	case "nsends", "sendchan", "sendval":
		// channel sends of this path (plain sends and select cases that can send), trace ghosts
		if c.AtCallSite {
			panic(clauseNotApplicable{fname + " at call site"})
		}
		type snd struct{ ch, val, cond string; vt types.Type; vv *Val }
		var sends []snd
		for _, ev := range s.Trace {
			switch ev.Kind {
			case "send":
				sends = append(sends, snd{ch: ev.Extra["chan"], vv: ev.Args[0], vt: ev.ArgTypes[0], cond: "true"})
			case "select":
				for k := 0; ev.Extra[fmt.Sprintf("sendchan%d", k)] != ""; k++ {
					sends = append(sends, snd{ch: ev.Extra[fmt.Sprintf("sendchan%d", k)], vv: ev.Args[k], vt: ev.ArgTypes[k], cond: ev.Extra[fmt.Sprintf("sendcond%d", k)]})
				}
			}
		}
		if fname == "nsends" {
			terms := []string{"0"}
			for _, sd := range sends {
				terms = append(terms, app("ite", sd.cond, "1", "0"))
			}
			if len(terms) == 1 {
				return svInt("0")
			}
			return svInt(app("+", terms...))
		}
		k, _ := strconv.Atoi(n.Args[0].(*ast.BasicLit).Value)
		if k >= len(sends) {
			panic(clauseNotApplicable{fname})
		}
		if fname == "sendchan" {
			return svInt(sends[k].ch)
		}
		return e.svOf(sends[k].vv, sends[k].vt)
	case "inorder":
		// inorder("k1", "k2", ...): the first calls to these callees on this path occur in this order
		if c.AtCallSite {
			panic(clauseNotApplicable{"inorder at call site"})
		}
		last := -1
		okOrder := true
		for _, a := range n.Args {
			name, _ := strconv.Unquote(a.(*ast.BasicLit).Value)
			// "kind:what" selects other event kinds (send, recv, close, go, select); "kind:" matches any
			kind := "call"
			for _, k := range []string{"call:", "send:", "recv:", "close:", "go:", "select:"} {
				if strings.HasPrefix(name, k) {
					kind, name = k[:len(k)-1], name[len(k):]
				}
			}
			if al, renamed := FieldAlias[name]; renamed {
				name = name[:strings.LastIndex(name, ".")+1] + al // the channel field was renamed
			}
			pos := -1
			for i, ev := range s.Trace {
				if ev.Kind == kind && (ev.What == name || name == "") && i > last {
					pos = i
					break
				}
			}
			if pos < 0 {
				okOrder = false
				break
			}
			last = pos
		}
		return svBool(fmt.Sprint(okOrder))
	case "nheld":
		// nheld("callee key", k): number of locks this activation holds at the k-th call to that callee
		if c.AtCallSite {
			panic(clauseNotApplicable{"nheld at call site"})
		}
		name, _ := strconv.Unquote(n.Args[0].(*ast.BasicLit).Value)
		k, _ := strconv.Atoi(n.Args[1].(*ast.BasicLit).Value)
		cnt := 0
		for _, ev := range s.Trace {
			if ev.Kind == "call" && ev.What == name {
				if cnt == k {
					return svInt(num(int64(len(ev.Held))))
				}
				cnt++
			}
		}
		panic(clauseNotApplicable{"nheld " + name})
	case "lastcallret":
		if c.AtCallSite {
			panic(clauseNotApplicable{"lastcallret at call site"})
		}
		name, _ := strconv.Unquote(n.Args[0].(*ast.BasicLit).Value)
		ri, _ := strconv.Atoi(n.Args[1].(*ast.BasicLit).Value)
		for i := len(s.Trace) - 1; i >= 0; i-- {
			ev := s.Trace[i]
			if ev.Kind == "call" && ev.What == name && ri < len(ev.Rets) {
				if ri < len(ev.RetTypes) && ev.RetTypes[ri] != nil {
					return e.svOf(ev.Rets[ri], ev.RetTypes[ri])
				}
				return &SV{V: ev.Rets[ri], Sort: "Int"}
			}
		}
		panic(clauseNotApplicable{"lastcallret " + name})
	case "lastcallarg":
		// lastcallarg("callee key", i): i-th argument of the most recent call to that callee on this path
		if c.AtCallSite {
			panic(clauseNotApplicable{"lastcallarg at call site"})
		}
		lit := n.Args[0].(*ast.BasicLit)
		name, _ := strconv.Unquote(lit.Value)
		ai, _ := strconv.Atoi(n.Args[1].(*ast.BasicLit).Value)
		if DroppedReceiver[name] && ai >= 1 {
			ai--
		}
		for i := len(s.Trace) - 1; i >= 0; i-- {
			ev := s.Trace[i]
			if ev.Kind == "call" && ev.What == name && ai < len(ev.Args) {
				if ai < len(ev.ArgTypes) && ev.ArgTypes[ai] != nil {
					return e.svOf(ev.Args[ai], ev.ArgTypes[ai])
				}
				return &SV{V: ev.Args[ai], Sort: "Int"}
			}
		}
		panic(clauseNotApplicable{"lastcallarg " + name})
	}
	if sortS, ok := ghostHeaps[fname]; ok {
		h := e.specHeap(s, c, "GH!"+fname, "(Array Int "+sortS+")")
		return &SV{V: &Val{L: []string{app("select", h, arg(0).V.L[0])}}, Sort: sortS, T: types.Typ[types.Int]}
	}
	// uninterpreted spec function: name encodes the result sort (p_* => Bool)
	var args, sorts []string
	for i := range n.Args {
		a := arg(i)
		if len(a.V.L) != 1 {
			e.unsupportedf("composite argument to spec function %s", fname)
		}
		args = append(args, a.V.L[0])
		so := a.Sort
		if so == "" {
			so = "Int"
		}
		sorts = append(sorts, so)
	}
	res := "Int"
	if strings.HasPrefix(fname, "p_") || strings.HasPrefix(fname, "is") {
		res = "Bool"
	}
	if sf, ok := e.C.SpecFns[fname]; ok {
		res = sf.Res
		sorts = sf.Args
	}
	sym := "sf!" + fname
	if _, declared := e.C.SpecFns[fname]; !declared {
		e.globalDecl(fmt.Sprintf("(declare-fun %s (%s) %s)", sym, strings.Join(sorts, " "), res))
	}
	if len(args) == 0 {
		return &SV{V: &Val{L: []string{sym}}, Sort: res}
	}
	if df, ok := e.C.Defines[fname]; ok && !c.InDefine && len(df.Params) == len(n.Args) {
		// defining equation, unfolded once at this use (nested uses inside the body stay folded)
		c2 := *c
		c2.InDefine = true
		c2.Bound = map[string]*SV{}
		for k, v := range c.Bound {
			c2.Bound[k] = v
		}
		for i, pn := range df.Params {
			c2.Bound[pn] = arg(i)
		}
		body := e.eval(s, &c2, df.Body.Expr)
		s.assume(eq(app(sym, args...), body.V.L[0]))
	}
	return &SV{V: &Val{L: []string{app(sym, args...)}}, Sort: res, T: map[string]types.Type{"Int": types.Typ[types.Int], "Bool": types.Typ[types.Bool], "Str": types.Typ[types.String]}[res]}
}

func (e *Engine) typeTagByName(name string) string {
	name = strings.NewReplacer(" ", "_", "*", "P", "[", "L", "]", "R").Replace(name)
	for k, id := range e.typeTags {
		if k == name {
			return num(int64(id))
		}
	}
	e.typeTags[name] = len(e.typeTags) + 1
	e.tagTypes = append(e.tagTypes, nil)
	return num(int64(e.typeTags[name]))
}

type clauseNotApplicable struct{ name string }

// tryEvalBool evaluates a clause; ok is false when the clause mentions a local that is not live here.
func (e *Engine) tryEvalBool(s *State, c *SpecCtx, x ast.Expr) (t string, ok bool) {
	nl := len(s.Lines)
	heap0 := make(map[string]string, len(s.Heap))
	for k, v := range s.Heap {
		heap0[k] = v
	}
	decl0 := make(map[string]bool, len(s.Decl))
	for k, v := range s.Decl {
		decl0[k] = v
	}
	defer func() {
		if r := recover(); r != nil {
			if _, isNA := r.(clauseNotApplicable); isNA {
				s.Lines = s.Lines[:nl]
				s.Heap, s.Decl = heap0, decl0
				t, ok = "true", false
				return
			}
			panic(r)
		}
	}()
	return e.evalBool(s, c, x), true
}

// actualParamName maps a name used by fn's contract for a parameter (declared by position in
// "func key(recv, a, b)") to the name the parameter has in the code now; also for the entry-value
// spelling "a0". Names that are not contract parameter names come back unchanged.
func (e *Engine) actualParamName(fn *ssa.Function, name string) string {
	if fn == nil || e.C == nil {
		return name
	}
	ct := e.C.Funcs[e.P.FuncKey(fn)]
	if ct == nil || len(ct.ParamNames) == 0 && len(ct.LocalNames) == 0 {
		ct = e.C.Names[e.P.FuncKey(fn)]
	}
	if ct == nil || len(ct.ParamNames) == 0 && len(ct.LocalNames) == 0 {
		return name
	}
	if alias := e.actualLocalName(fn, ct, name); alias != "" {
		return alias
	}
	base, suffix := name, ""
	for i, pn := range ct.ParamNames {
		if i >= len(fn.Params) {
			break
		}
		if pn == name || (strings.HasSuffix(name, "0") && pn == name[:len(name)-1]) {
			if pn != name {
				base, suffix = name[:len(name)-1], "0"
			}
			actual := fn.Params[i].Name()
			if actual == base {
				return name
			}
			// the old name must not mean something else in the code now
			for _, p := range fn.Params {
				if p.Name() == base {
					return name
				}
			}
			for _, b := range fn.Blocks {
				for _, in := range b.Instrs {
					if al, ok := in.(*ssa.Alloc); ok && al.Comment == base {
						return name
					}
				}
			}
			return actual + suffix
		}
	}
	return name
}

// NamedLocals: the named locals of fn (parameters excluded) in SSA declaration order.
func NamedLocals(fn *ssa.Function) []string {
	params := map[string]bool{}
	for _, p := range fn.Params {
		params[p.Name()] = true
	}
	var out []string
	for _, b := range fn.Blocks {
		for _, in := range b.Instrs {
			if al, ok := in.(*ssa.Alloc); ok && al.Comment != "" && !params[al.Comment] && !syntheticAllocComment[al.Comment] {
				out = append(out, al.Comment)
			}
		}
	}
	return out
}

// actualLocalName: name was a local when the contract was written (it is in ct.LocalNames) and no longer
// exists; if the function still has the same number of named locals and the one at the same position is
// new, that is the renamed local. "" if this does not apply.
func (e *Engine) actualLocalName(fn *ssa.Function, ct *Contract, name string) string {
	if len(ct.LocalNames) == 0 {
		return ""
	}
	now := NamedLocals(fn)
	if len(now) != len(ct.LocalNames) {
		return ""
	}
	was := map[string]bool{}
	for _, n := range ct.LocalNames {
		was[n] = true
	}
	for _, n := range now {
		if n == name {
			return "" // still exists
		}
	}
	for _, p := range fn.Params {
		if p.Name() == name {
			return ""
		}
	}
	for i, n := range ct.LocalNames {
		if n == name && !was[now[i]] {
			// every occurrence of the old name must map to the same new name
			for j, m := range ct.LocalNames {
				if m == name && now[j] != now[i] {
					return ""
				}
			}
			return now[i]
		}
	}
	return ""
}

// comments go/ssa gives to allocations that are not named source variables
var syntheticAllocComment = map[string]bool{"defer$stack": true, "complit": true, "new": true, "varargs": true, "makeslice": true, "slicelit": true, "stringiter": true, "rangeiter": true}
