package eng

import (
	"fmt"
	"go/token"
	"go/types"
	"sort"
	"strings"

	"golang.org/x/tools/go/ssa"
)

// execInstr executes one non-control instruction. A non-nil result means the path forked.
func (e *Engine) execInstr(s *State, in ssa.Instruction) []*State {
	fr := s.top()
	set := func(v ssa.Value, r *Val) { fr.Vals[v] = r }
	switch x := in.(type) {
	case *ssa.DebugRef:
	case *ssa.Alloc:
		set(x, e.execAlloc(s, x))
	case *ssa.Store:
		p := e.val(s, x.Addr)
		v := e.val(s, x.Val)
		e.nilCheck(s, p, x.Addr.Type(), in)
		e.storePtr(s, p, x.Addr.Type(), v, in)
	case *ssa.UnOp:
		return e.execUnOp(s, x)
	case *ssa.BinOp:
		set(x, e.execBinOp(s, x))
	case *ssa.FieldAddr:
		p := e.val(s, x.X)
		st := deref(x.X.Type())
		f := st.Underlying().(*types.Struct).Field(x.Field)
		if p.A != nil && p.A.K == AField {
			set(x, &Val{A: &Addr{K: AField, Base: p.A.Base, SKey: p.A.SKey, Path: p.A.Path + "." + f.Name(), T: f.Type(), Fresh: p.A.Fresh}, NN: true})
			break
		}
		if p.A != nil && p.A.K == AGlobal {
			set(x, &Val{A: &Addr{K: AGlobal, Glob: p.A.Glob, Path: p.A.Path + "." + f.Name(), T: f.Type()}, NN: true})
			break
		}
		if p.A != nil {
			e.unsupportedf("field address through %v pointer at %s", p.A.K, e.P.Pos(in.Pos()))
		}
		e.nilCheck(s, p, x.X.Type(), in)
		s.assume(not(eq(p.L[0], "0"))) // past a field access the pointer was non-nil (else the nilderef obligation / trusted assumption)
		set(x, &Val{A: &Addr{K: AField, Base: p.L[0], SKey: structKey(st), Path: "." + f.Name(), T: f.Type(), Fresh: s.FreshRefs[p.L[0]]}, NN: true})
	case *ssa.Field:
		v := e.val(s, x.X)
		st := x.X.Type().Underlying().(*types.Struct)
		off := 0
		for i := 0; i < x.Field; i++ {
			off += len(e.leaves(st.Field(i).Type()))
		}
		n := len(e.leaves(st.Field(x.Field).Type()))
		set(x, &Val{L: v.L[off : off+n], NN: true})
	case *ssa.IndexAddr:
		set(x, e.execIndexAddr(s, x))
	case *ssa.Index:
		set(x, e.execIndex(s, x))
	case *ssa.Slice:
		set(x, e.execSlice(s, x))
	case *ssa.MakeSlice:
		l := e.val(s, x.Len).L[0]
		c := e.val(s, x.Cap).L[0]
		e.assert(s, e.oblName(s, in, "makelen"), "makelen", in.Pos(), "make([]T, len, cap): 0 <= len <= cap", and(app("<=", "0", l), app("<=", l, c)))
		et := x.Type().Underlying().(*types.Slice).Elem()
		r := e.allocRef(s, "mk")
		for _, lf := range e.leaves(et) {
			name, sortS := "E!"+typeKey(et)+lf.Path, "(Array Int (Array Int "+lf.Sort+"))"
			h := e.heapGet(s, name, sortS)
			e.heapSet(s, name, sortS, app("store", h, r, zeroOfSort("(Array Int "+lf.Sort+")")))
		}
		set(x, &Val{L: []string{r, "0", l, c}, NN: true})
	case *ssa.MakeMap:
		mt := x.Type().Underlying().(*types.Map)
		r := e.allocRef(s, "mp")
		e.mapInit(s, mt, r)
		set(x, &Val{L: []string{r}, NN: true, Fresh: true})
	case *ssa.MakeChan:
		r := e.allocRef(s, "ch")
		sz := e.val(s, x.Size).L[0]
		cc := e.heapGet(s, "CC!", "(Array Int Int)")
		e.heapSet(s, "CC!", "(Array Int Int)", app("store", cc, r, sz))
		cl := e.heapGet(s, "CL!", "(Array Int Int)")
		e.heapSet(s, "CL!", "(Array Int Int)", app("store", cl, r, "0"))
		ccl := e.heapGet(s, "CX!", "(Array Int Bool)")
		e.heapSet(s, "CX!", "(Array Int Bool)", app("store", ccl, r, "false"))
		set(x, &Val{L: []string{r}, NN: true, Fresh: true})
	case *ssa.MakeInterface:
		set(x, e.makeInterface(s, x.X.Type(), e.val(s, x.X)))
	case *ssa.MakeClosure:
		var b []*Val
		for _, bv := range x.Bindings {
			bvv := e.val(s, bv)
			b = append(b, bvv)
			e.escape(s, bv.Type(), bvv)
		}
		fn := x.Fn.(*ssa.Function)
		c := e.declare(s, "clo", "Int")
		s.assume(app(">", c, "0"))
		set(x, &Val{Fn: fn, Bind: b, L: []string{c}, NN: true})
	case *ssa.ChangeInterface:
		set(x, e.val(s, x.X))
	case *ssa.ChangeType:
		set(x, e.val(s, x.X))
	case *ssa.Convert:
		set(x, e.execConvert(s, x))
	case *ssa.TypeAssert:
		set(x, e.execTypeAssert(s, x))
	case *ssa.Extract:
		t := e.val(s, x.Tuple)
		if t.Tup != nil {
			set(x, t.Tup[x.Index])
			break
		}
		tt := x.Tuple.Type().(*types.Tuple)
		off := 0
		for i := 0; i < x.Index; i++ {
			off += len(e.leaves(tt.At(i).Type()))
		}
		n := len(e.leaves(tt.At(x.Index).Type()))
		set(x, &Val{L: t.L[off : off+n]})
	case *ssa.Lookup:
		set(x, e.execLookup(s, x))
	case *ssa.MapUpdate:
		m := e.val(s, x.Map)
		mt := x.Map.Type().Underlying().(*types.Map)
		nmw := not(eq(m.L[0], "0"))
		if m.NN {
			nmw = "true" // map held in a struct field / parameter: trusted non-nil (listed assumption)
		}
		e.assert(s, e.oblName(s, in, "nilmap-write"), "nilmap-write", in.Pos(), "assignment to entry in nil map", nmw)
		// execution continues past the update only when the map was not nil
		s.assume(not(eq(m.L[0], "0")))
		e.containerWrite(s, m, e.val(s, x.Value), in)
		e.checkGuardContents(s, m, in, true)
		e.mapStore(s, mt, m.L[0], e.val(s, x.Key), e.val(s, x.Value))
	case *ssa.Range:
		e.execRange(s, x)
		set(x, &Val{L: []string{"0"}})
	case *ssa.Next:
		return e.execNext(s, x)
	case *ssa.Select:
		return e.execSelect(s, x)
	case *ssa.Send:
		e.execSend(s, x)
	case *ssa.Go:
		e.execGo(s, x)
	case *ssa.Defer:
		fr.Defers = append(fr.Defers, e.captureCall(s, x.Common(), in))
	case *ssa.RunDefers:
		return e.execRunDefers(s, x)
	case *ssa.Call:
		return e.execCall(s, x)
	default:
		e.unsupportedf("instruction %T at %s", in, e.P.Pos(in.Pos()))
	}
	return nil
}

func (e *Engine) execAlloc(s *State, x *ssa.Alloc) *Val {
	t := deref(x.Type())
	switch u := t.Underlying().(type) {
	case *types.Struct:
		r := e.allocRef(s, "obj")
		z := e.zero(t)
		e.storePtr(s, &Val{L: []string{r}}, x.Type(), z, nil)
		s.FreshRefs[r] = true
		if !e.allocEscapes(x) {
			np := make(map[string]bool, len(s.Private)+1)
			for k := range s.Private {
				np[k] = true
			}
			np[r] = true
			s.Private = np
		}
		return &Val{L: []string{r}, NN: true, Fresh: true}
	case *types.Array:
		r := e.allocRef(s, "arr")
		for _, lf := range e.leaves(u.Elem()) {
			name, sortS := "E!"+typeKey(u.Elem())+lf.Path, "(Array Int (Array Int "+lf.Sort+"))"
			h := e.heapGet(s, name, sortS)
			e.heapSet(s, name, sortS, app("store", h, r, zeroOfSort("(Array Int "+lf.Sort+")")))
		}
		return &Val{L: []string{r}, NN: true, Fresh: true}
	}
	if e.allocEscapes(x) {
		r := e.allocRef(s, "cell")
		a := &Addr{K: ACell, Base: r, T: t, Fresh: true}
		e.store(s, a, e.zero(t), nil)
		s.FreshRefs[r] = true
		return &Val{A: a, L: []string{r}, NN: true}
	}
	s.Locals[x] = &cell{L: e.zero(t).L}
	return &Val{A: &Addr{K: ALocal, Alloc: x, T: t}, NN: true}
}

// nilCheck emits a nilderef obligation for pointer p unless it is trusted non-nil.
func (e *Engine) nilCheck(s *State, p *Val, pt types.Type, in ssa.Instruction) {
	if p.A != nil || p.NN || len(p.L) == 0 {
		return
	}
	if !e.Cfg.NilDeref {
		return
	}
	e.assert(s, e.oblName(s, in, "nilderef"), "nilderef", in.Pos(), "nil pointer dereference", not(eq(p.L[0], "0")))
}

func (e *Engine) execUnOp(s *State, x *ssa.UnOp) []*State {
	fr := s.top()
	switch x.Op {
	case token.MUL:
		p := e.val(s, x.X)
		e.nilCheck(s, p, x.X.Type(), x)
		fr.Vals[x] = e.loadPtr(s, p, x.X.Type(), x)
	case token.NOT:
		fr.Vals[x] = &Val{L: []string{not(e.val(s, x.X).L[0])}}
	case token.SUB:
		v := e.val(s, x.X).L[0]
		fr.Vals[x] = &Val{L: []string{e.define(s, x.Name(), "Int", wrap(x.Type(), app("-", v)))}}
	case token.XOR:
		r := e.havocVal(s, x.Type(), "bitnot")
		fr.Vals[x] = r
	case token.ARROW:
		return e.execRecv(s, x)
	default:
		e.unsupportedf("unop %s", x.Op)
	}
	return nil
}

func isStringT(t types.Type) bool {
	b, ok := t.Underlying().(*types.Basic)
	return ok && b.Info()&types.IsString != 0
}

func isBoolT(t types.Type) bool {
	b, ok := t.Underlying().(*types.Basic)
	return ok && b.Info()&types.IsBoolean != 0
}

func isFloatT(t types.Type) bool {
	b, ok := t.Underlying().(*types.Basic)
	return ok && b.Info()&(types.IsFloat|types.IsComplex) != 0
}

func (e *Engine) execBinOp(s *State, x *ssa.BinOp) *Val {
	a, b := e.val(s, x.X), e.val(s, x.Y)
	t := x.X.Type()
	name := x.Name()
	switch x.Op {
	case token.EQL, token.NEQ:
		var t0 string
		if len(a.L) == 1 && len(b.L) == 1 {
			t0 = eq(a.L[0], b.L[0])
		} else if _, ok := t.Underlying().(*types.Slice); ok {
			// slices compare only against nil
			other := a
			if len(a.L) == 4 {
				other = a
			}
			if isZeroSlice(b) {
				other = a
			} else {
				other = b
			}
			t0 = eq(other.L[0], "0")
		} else {
			var cs []string
			for i := range a.L {
				cs = append(cs, eq(a.L[i], b.L[i]))
			}
			t0 = and(cs...)
		}
		if x.Op == token.NEQ {
			t0 = not(t0)
		}
		return &Val{L: []string{e.define(s, name, "Bool", t0)}}
	}
	if isStringT(t) {
		switch x.Op {
		case token.ADD:
			r := e.define(s, name, "Str", app("sconcat", a.L[0], b.L[0]))
			s.assume(eq(app("slen", r), app("+", app("slen", a.L[0]), app("slen", b.L[0]))))
			return &Val{L: []string{r}}
		case token.LSS, token.GTR, token.LEQ, token.GEQ:
			e.globalDecl("(declare-fun slt (Str Str) Bool)")
			var t0 string
			switch x.Op {
			case token.LSS:
				t0 = app("slt", a.L[0], b.L[0])
			case token.GTR:
				t0 = app("slt", b.L[0], a.L[0])
			case token.LEQ:
				t0 = not(app("slt", b.L[0], a.L[0]))
			case token.GEQ:
				t0 = not(app("slt", a.L[0], b.L[0]))
			}
			return &Val{L: []string{e.define(s, name, "Bool", t0)}}
		}
	}
	if isBoolT(t) {
		switch x.Op {
		case token.AND, token.LAND:
			return &Val{L: []string{and(a.L[0], b.L[0])}}
		case token.OR, token.LOR:
			return &Val{L: []string{or(a.L[0], b.L[0])}}
		}
	}
	if isFloatT(t) {
		e.note("floating point abstracted")
		return e.havocVal(s, x.Type(), "flt")
	}
	A, B := a.L[0], b.L[0]
	switch x.Op {
	case token.LSS:
		return &Val{L: []string{e.define(s, name, "Bool", app("<", A, B))}}
	case token.LEQ:
		return &Val{L: []string{e.define(s, name, "Bool", app("<=", A, B))}}
	case token.GTR:
		return &Val{L: []string{e.define(s, name, "Bool", app(">", A, B))}}
	case token.GEQ:
		return &Val{L: []string{e.define(s, name, "Bool", app(">=", A, B))}}
	case token.ADD:
		return &Val{L: []string{e.define(s, name, "Int", wrap(x.Type(), app("+", A, B)))}}
	case token.SUB:
		return &Val{L: []string{e.define(s, name, "Int", wrap(x.Type(), app("-", A, B)))}}
	case token.MUL:
		return &Val{L: []string{e.define(s, name, "Int", wrap(x.Type(), app("*", A, B)))}}
	case token.QUO, token.REM:
		e.assert(s, e.oblName(s, x, "div0"), "div0", x.Pos(), "integer division by zero", not(eq(B, "0")))
		op := "tdiv"
		if x.Op == token.REM {
			op = "tmod"
		}
		return &Val{L: []string{e.define(s, name, "Int", wrap(x.Type(), app(op, A, B)))}}
	case token.SHL:
		if c, ok := x.Y.(*ssa.Const); ok && c.Value != nil {
			if n, ok2 := constInt(c); ok2 && n >= 0 && n < 63 {
				return &Val{L: []string{e.define(s, name, "Int", wrap(x.Type(), app("*", A, num(int64(1)<<uint(n)))))}}
			}
		}
	case token.SHR:
		if c, ok := x.Y.(*ssa.Const); ok && c.Value != nil {
			if n, ok2 := constInt(c); ok2 && n >= 0 && n < 63 {
				return &Val{L: []string{e.define(s, name, "Int", app("div", A, num(int64(1)<<uint(n))))}}
			}
		}
	case token.AND:
		if c, ok := x.Y.(*ssa.Const); ok && c.Value != nil {
			if n, ok2 := constInt(c); ok2 && n >= 0 && (n+1)&n == 0 {
				if _, signed, _ := isInteger(t); !signed {
					return &Val{L: []string{e.define(s, name, "Int", app("mod", A, num(n+1)))}}
				}
			}
		}
	}
	e.note("bit operation " + x.Op.String() + " abstracted to an unconstrained value in range")
	return e.havocVal(s, x.Type(), "bitop")
}

func isZeroSlice(v *Val) bool {
	return len(v.L) == 4 && v.L[0] == "0"
}

func constInt(c *ssa.Const) (int64, bool) {
	if c.Value == nil {
		return 0, false
	}
	return c.Int64(), true
}

func (e *Engine) execIndexAddr(s *State, x *ssa.IndexAddr) *Val {
	base := e.val(s, x.X)
	idx := e.val(s, x.Index).L[0]
	switch u := x.X.Type().Underlying().(type) {
	case *types.Slice:
		e.assert(s, e.oblName(s, x, "index"), "index", x.Pos(), "index out of range", and(app("<=", "0", idx), app("<", idx, base.L[2])))
		return &Val{A: &Addr{K: AElem, Base: base.L[0], Idx: e.define(s, "ix", "Int", app("+", base.L[1], idx)), T: u.Elem()}, NN: true}
	case *types.Pointer:
		at := u.Elem().Underlying().(*types.Array)
		e.nilCheck(s, base, x.X.Type(), x)
		e.assert(s, e.oblName(s, x, "index"), "index", x.Pos(), "index out of range", and(app("<=", "0", idx), app("<", idx, num(at.Len()))))
		return &Val{A: &Addr{K: AElem, Base: e.arrayRef(s, base), Idx: idx, T: at.Elem()}, NN: true}
	}
	e.unsupportedf("IndexAddr on %s", x.X.Type())
	return nil
}

func (e *Engine) execIndex(s *State, x *ssa.Index) *Val {
	base := e.val(s, x.X)
	idx := e.val(s, x.Index).L[0]
	switch u := x.X.Type().Underlying().(type) {
	case *types.Basic: // string
		e.assert(s, e.oblName(s, x, "index"), "index", x.Pos(), "string index out of range", and(app("<=", "0", idx), app("<", idx, app("slen", base.L[0]))))
		r := e.define(s, x.Name(), "Int", app("sat", base.L[0], idx))
		s.assume(and(app("<=", "0", r), app("<", r, "256")))
		return &Val{L: []string{r}}
	case *types.Array:
		e.assert(s, e.oblName(s, x, "index"), "index", x.Pos(), "index out of range", and(app("<=", "0", idx), app("<", idx, num(u.Len()))))
		v := &Val{}
		for i := range e.leaves(u.Elem()) {
			v.L = append(v.L, app("select", base.L[i], idx))
		}
		return v
	}
	e.unsupportedf("Index on %s", x.X.Type())
	return nil
}

func (e *Engine) execSlice(s *State, x *ssa.Slice) *Val {
	base := e.val(s, x.X)
	name := e.oblName(s, x, "slice")
	get := func(v ssa.Value) string {
		if v == nil {
			return ""
		}
		return e.val(s, v).L[0]
	}
	lo, hi, mx := get(x.Low), get(x.High), get(x.Max)
	if lo == "" {
		lo = "0"
	}
	switch u := x.X.Type().Underlying().(type) {
	case *types.Slice:
		ln, cp := base.L[2], base.L[3]
		var goal string
		if hi == "" {
			hi = ln
			goal = and(app("<=", "0", lo), app("<=", lo, hi))
			if mx != "" {
				goal = and(goal, app("<=", hi, mx), app("<=", mx, cp))
			}
		} else {
			if mx == "" {
				goal = and(app("<=", "0", lo), app("<=", lo, hi), app("<=", hi, cp))
			} else {
				goal = and(app("<=", "0", lo), app("<=", lo, hi), app("<=", hi, mx), app("<=", mx, cp))
			}
		}
		if mx == "" {
			mx = cp
		}
		e.assert(s, name, "slice", x.Pos(), "slice bounds out of range", goal)
		r := &Val{L: []string{base.L[0], e.define(s, "so", "Int", app("+", base.L[1], lo)), e.define(s, "sl", "Int", app("-", hi, lo)), e.define(s, "sc", "Int", app("-", mx, lo))}, NN: true}
		return r
	case *types.Basic: // string
		ln := app("slen", base.L[0])
		if hi == "" {
			hi = ln
		}
		e.assert(s, name, "slice", x.Pos(), "string slice bounds out of range", and(app("<=", "0", lo), app("<=", lo, hi), app("<=", hi, ln)))
		e.globalDecl("(declare-fun ssub (Str Int Int) Str)")
		r := e.define(s, x.Name(), "Str", app("ssub", base.L[0], lo, hi))
		s.assume(eq(app("slen", r), app("-", hi, lo)))
		s.assume(implies(and(eq(lo, "0"), eq(hi, ln)), eq(r, base.L[0])))
		return &Val{L: []string{r}}
	case *types.Pointer:
		at := u.Elem().Underlying().(*types.Array)
		n := num(at.Len())
		if hi == "" {
			hi = n
		}
		if mx == "" {
			mx = n
		}
		e.nilCheck(s, base, x.X.Type(), x)
		e.assert(s, name, "slice", x.Pos(), "slice bounds out of range", and(app("<=", "0", lo), app("<=", lo, hi), app("<=", hi, mx), app("<=", mx, n)))
		return &Val{L: []string{e.arrayRef(s, base), lo, e.define(s, "sl", "Int", app("-", hi, lo)), e.define(s, "sc", "Int", app("-", mx, lo))}, NN: true}
	}
	e.unsupportedf("Slice on %s", x.X.Type())
	return nil
}

// arrayRef is the backing-array reference of a pointer-to-array value. An array that is a struct
// field is identified by an uninterpreted function of the owning object (it may alias anything:
// conservative).
func (e *Engine) arrayRef(s *State, base *Val) string {
	if base.A == nil {
		return base.L[0]
	}
	if base.A.K != AField {
		e.unsupportedf("array behind %v pointer", base.A.K)
	}
	f := "farr!" + sanitize(base.A.SKey+base.A.Path)
	e.globalDecl("(declare-fun " + f + " (Int) Int)")
	r := e.define(s, "farr", "Int", app(f, base.A.Base))
	s.assume(app(">", r, "0"))
	return r
}

func (e *Engine) makeInterface(s *State, t types.Type, v *Val) *Val {
	i := e.declare(s, "ifc", "Int")
	s.assume(and(app(">", i, "0"), eq(app("ityp", i), e.typeTag(t))))
	ls := e.leaves(t)
	if len(ls) == 1 && len(v.L) == 1 {
		switch ls[0].Sort {
		case "Int":
			s.assume(eq(app("iref", i), v.L[0]))
		case "Str":
			s.assume(eq(app("istr", i), v.L[0]))
		case "Bool":
			s.assume(eq(app("iref", i), "(ite "+v.L[0]+" 1 0)"))
		}
	}
	return &Val{L: []string{i}, NN: true, Fn: v.Fn, Bind: v.Bind, Under: v}
}

func (e *Engine) execConvert(s *State, x *ssa.Convert) *Val {
	v := e.val(s, x.X)
	from, to := x.X.Type(), x.Type()
	_, _, fi := isInteger(from)
	_, _, ti := isInteger(to)
	switch {
	case fi && ti:
		return &Val{L: []string{e.define(s, x.Name(), "Int", wrap(to, v.L[0]))}}
	case isStringT(to):
		if sl, ok := from.Underlying().(*types.Slice); ok {
			// the string made of bytes [off, off+len) of the array value: a function of exactly these
			h0 := e.heapGet(s, "E!"+typeKey(sl.Elem()), "(Array Int (Array Int Int))")
			e.globalDecl("(declare-fun bstr ((Array Int Int) Int Int) Str)")
			r := e.define(s, "str", "Str", app("bstr", app("select", h0, v.L[0]), v.L[1], v.L[2]))
			s.assume(eq(app("slen", r), v.L[2]))
			if e.Cfg.StrBytes {
				h := e.heapGet(s, "E!"+typeKey(sl.Elem()), "(Array Int (Array Int Int))")
				s.add(fmt.Sprintf("(assert (forall ((k!q Int)) (=> (and (<= 0 k!q) (< k!q %s)) (= (sat %s k!q) (select (select %s %s) (+ %s k!q))))))", v.L[2], r, h, v.L[0], v.L[1]))
			}
			return &Val{L: []string{r}}
		}
		r := e.declare(s, "str", "Str")
		s.assume(app(">=", app("slen", r), "0"))
		return &Val{L: []string{r}}
	case isStringT(from):
		if sl, ok := to.Underlying().(*types.Slice); ok {
			r := e.allocRef(s, "bs")
			ln := app("slen", v.L[0])
			name, sortS := "E!"+typeKey(sl.Elem()), "(Array Int (Array Int Int))"
			h := e.heapGet(s, name, sortS)
			arr := e.declare(s, "bsarr", "(Array Int Int)")
			if e.Cfg.StrBytes {
				s.add(fmt.Sprintf("(assert (forall ((k!q Int)) (=> (and (<= 0 k!q) (< k!q %s)) (= (select %s k!q) (sat %s k!q)))))", ln, arr, v.L[0]))
			}
			e.heapSet(s, name, sortS, app("store", h, r, arr))
			return &Val{L: []string{r, "0", ln, ln}, NN: true}
		}
	case isFloatT(from) || isFloatT(to):
		e.note("floating point abstracted")
		return e.havocVal(s, to, "fconv")
	}
	if _, ok := to.Underlying().(*types.Pointer); ok {
		return v
	}
	if b, ok := to.Underlying().(*types.Basic); ok && b.Kind() == types.UnsafePointer {
		return v
	}
	e.unsupportedf("conversion %s -> %s at %s", from, to, e.P.Pos(x.Pos()))
	return nil
}

func (e *Engine) implTerm(s *State, iface types.Type, x string) string {
	k := "impl!" + typeKey(iface)
	e.globalDecl("(declare-fun " + k + " (Int) Bool)")
	if it, ok := iface.Underlying().(*types.Interface); ok {
		if _, seen := e.ifaceAsserted[k]; !seen {
			e.ifaceAsserted[k] = it
		}
	}
	return app(k, app("ityp", x))
}

func (e *Engine) execTypeAssert(s *State, x *ssa.TypeAssert) *Val {
	v := e.val(s, x.X)
	i := v.L[0]
	var ok string
	_, toIface := x.AssertedType.Underlying().(*types.Interface)
	if toIface {
		ok = and(not(eq(i, "0")), e.implTerm(s, x.AssertedType, i))
		if it := x.AssertedType.Underlying().(*types.Interface); it.NumMethods() == 0 {
			ok = not(eq(i, "0"))
		} else if types.Implements(x.X.Type(), it) {
			ok = not(eq(i, "0"))
		}
	} else {
		ok = and(not(eq(i, "0")), eq(app("ityp", i), e.typeTag(x.AssertedType)))
	}
	okv := e.define(s, "taok", "Bool", ok)
	var res *Val
	if toIface {
		res = &Val{L: []string{i}}
	} else {
		ls := e.leaves(x.AssertedType)
		if len(ls) == 1 {
			switch ls[0].Sort {
			case "Int":
				res = &Val{L: []string{app("iref", i)}}
			case "Str":
				res = &Val{L: []string{app("istr", i)}}
			case "Bool":
				res = &Val{L: []string{eq(app("iref", i), "1")}}
			}
			if isRefLike(x.AssertedType) && ls[0].Sort == "Int" {
				s.assume(implies(okv, app(">=", app("iref", i), "0")))
			}
		} else {
			res = e.havocVal(s, x.AssertedType, "unboxed")
		}
	}
	if !x.CommaOk {
		e.assert(s, e.oblName(s, x, "typeassert"), "typeassert", x.Pos(), "interface conversion panic", okv)
		res.Fn, res.Bind = v.Fn, v.Bind
		return res
	}
	// on failure the value is the zero value
	z := e.zero(x.AssertedType)
	out := &Val{}
	for k := range res.L {
		out.L = append(out.L, app("ite", okv, res.L[k], z.L[k]))
	}
	return &Val{Tup: []*Val{out, {L: []string{okv}}}, L: append(append([]string{}, out.L...), okv)}
}

// ---- maps ---------------------------------------------------------------------------------

func (e *Engine) mapNames(mt *types.Map) (md, ml, ksort string) {
	kl := e.leaves(mt.Key())
	if len(kl) != 1 {
		e.unsupportedf("composite map key %s", mt.Key())
	}
	ksort = kl[0].Sort
	key := typeKey(mt.Key()) + "!" + typeKey(mt.Elem())
	return "MD!" + key, "ML!" + key, ksort
}

func (e *Engine) mapValName(mt *types.Map, leaf string) string {
	return "MV!" + typeKey(mt.Key()) + "!" + typeKey(mt.Elem()) + leaf
}

func (e *Engine) mapInit(s *State, mt *types.Map, r string) {
	md, ml, ks := e.mapNames(mt)
	ds := "(Array Int (Array " + ks + " Bool))"
	h := e.heapGet(s, md, ds)
	e.heapSet(s, md, ds, app("store", h, r, "((as const (Array "+ks+" Bool)) false)"))
	hl := e.heapGet(s, ml, "(Array Int Int)")
	e.heapSet(s, ml, "(Array Int Int)", app("store", hl, r, "0"))
	for _, f := range e.foldsFor(mt) {
		s.assume(eq(app(e.foldSym(f, mt), app("select", s.Heap[md], r), e.mapVals(s, mt, r)), "0"))
	}
}

func (e *Engine) mapDom(s *State, mt *types.Map, m string) string {
	md, _, ks := e.mapNames(mt)
	return app("select", e.heapGet(s, md, "(Array Int (Array "+ks+" Bool))"), m)
}

func (e *Engine) mapLen(s *State, mt *types.Map, m string) string {
	_, ml, _ := e.mapNames(mt)
	h := e.heapGet(s, ml, "(Array Int Int)")
	l := e.define(s, "mlen", "Int", app("ite", eq(m, "0"), "0", app("select", h, m)))
	s.assume(app(">=", l, "0"))
	// a map of length 0 has no keys (the length and the key set are separate heaps)
	_, _, ks := e.mapNames(mt)
	s.assume(implies(and(not(eq(m, "0")), eq(l, "0")), eq(e.mapDom(s, mt, m), "((as const (Array "+ks+" Bool)) false)")))
	return l
}

func (e *Engine) mapLoad(s *State, mt *types.Map, m string, k *Val) (*Val, string) {
	_, _, ks := e.mapNames(mt)
	in := e.define(s, "mhas", "Bool", and(not(eq(m, "0")), app("select", e.mapDom(s, mt, m), k.L[0])))
	v := &Val{}
	for _, lf := range e.leaves(mt.Elem()) {
		h := e.heapGet(s, e.mapValName(mt, lf.Path), "(Array Int (Array "+ks+" "+lf.Sort+"))")
		v.L = append(v.L, e.define(s, "mval", lf.Sort, app("ite", in, app("select", app("select", h, m), k.L[0]), zeroOfSort(lf.Sort))))
	}
	e.assumeTypeInv(s, mt.Elem(), v)
	e.assumeAllocatedVal(s, mt.Elem(), v)
	return v, in
}

func (e *Engine) mapStore(s *State, mt *types.Map, m string, k, v *Val) {
	md, ml, ks := e.mapNames(mt)
	ds := "(Array Int (Array " + ks + " Bool))"
	h := e.heapGet(s, md, ds)
	was := e.define(s, "mwas", "Bool", app("select", app("select", h, m), k.L[0]))
	e.heapSet(s, md, ds, app("store", h, m, app("store", app("select", h, m), k.L[0], "true")))
	foldOldVals := ""
	if len(e.foldsFor(mt)) > 0 {
		lf0 := e.leaves(mt.Elem())[0]
		foldOldVals = e.heapGet(s, e.mapValName(mt, lf0.Path), "(Array Int (Array "+ks+" "+lf0.Sort+"))")
	}
	for i, lf := range e.leaves(mt.Elem()) {
		name, sortS := e.mapValName(mt, lf.Path), "(Array Int (Array "+ks+" "+lf.Sort+"))"
		hv := e.heapGet(s, name, sortS)
		e.heapSet(s, name, sortS, app("store", hv, m, app("store", app("select", hv, m), k.L[0], v.L[i])))
	}
	hl := e.heapGet(s, ml, "(Array Int Int)")
	e.heapSet(s, ml, "(Array Int Int)", app("store", hl, m, app("ite", was, app("select", hl, m), app("+", app("select", hl, m), "1"))))
	if fs := e.foldsFor(mt); len(fs) > 0 {
		oldDom := app("select", h, m)
		lf := e.leaves(mt.Elem())[0]
		_ = lf
		newDom := app("select", s.Heap[md], m)
		newVals := e.mapVals(s, mt, m)
		for _, f := range fs {
			sym := e.foldSym(f, mt)
			oldVals := app("select", foldOldVals, m)
			wOld := e.foldWeight(s, f, mt, k.L[0], app("select", oldVals, k.L[0]))
			wNew := e.foldWeight(s, f, mt, k.L[0], v.L[0])
			s.assume(eq(app(sym, newDom, newVals), app("+", app("-", app(sym, oldDom, oldVals), app("ite", was, wOld, "0")), wNew)))
			s.assume(and(app(">=", wNew, "0"), app(">=", wOld, "0"), app(">=", app(sym, oldDom, oldVals), app("ite", was, wOld, "0"))))
		}
	}
	e.escape(s, mt.Elem(), v)
	e.escape(s, mt.Key(), k)
}

func (e *Engine) mapDelete(s *State, mt *types.Map, m string, k *Val) {
	md, ml, ks := e.mapNames(mt)
	ds := "(Array Int (Array " + ks + " Bool))"
	h := e.heapGet(s, md, ds)
	was := e.define(s, "mwas", "Bool", and(not(eq(m, "0")), app("select", app("select", h, m), k.L[0])))
	e.heapSet(s, md, ds, app("ite", eq(m, "0"), h, app("store", h, m, app("store", app("select", h, m), k.L[0], "false"))))
	hl := e.heapGet(s, ml, "(Array Int Int)")
	e.heapSet(s, ml, "(Array Int Int)", app("ite", was, app("store", hl, m, app("-", app("select", hl, m), "1")), hl))
}

func (e *Engine) execLookup(s *State, x *ssa.Lookup) *Val {
	m := e.val(s, x.X)
	k := e.val(s, x.Index)
	if mt, ok := x.X.Type().Underlying().(*types.Map); ok {
		e.checkGuardContents(s, m, x, false)
		v, in := e.mapLoad(s, mt, m.L[0], k)
		if strings.Contains(e.C.Containers[m.Src], "nonnil") && len(v.L) == 1 {
			s.assume(implies(in, not(eq(v.L[0], "0"))))
		}
		if x.CommaOk {
			return &Val{Tup: []*Val{v, {L: []string{in}}}, L: append(append([]string{}, v.L...), in)}
		}
		return v
	}
	// string index
	idx := k.L[0]
	e.assert(s, e.oblName(s, x, "index"), "index", x.Pos(), "string index out of range", and(app("<=", "0", idx), app("<", idx, app("slen", m.L[0]))))
	r := e.define(s, x.Name(), "Int", app("sat", m.L[0], idx))
	s.assume(and(app("<=", "0", r), app("<", r, "256")))
	return &Val{L: []string{r}}
}

func (e *Engine) execRange(s *State, x *ssa.Range) {
	v := e.val(s, x.X)
	if mt, ok := x.X.Type().Underlying().(*types.Map); ok {
		_, _, ks := e.mapNames(mt)
		dom := e.define(s, "rdom", "(Array "+ks+" Bool)", app("ite", eq(v.L[0], "0"), "((as const (Array "+ks+" Bool)) false)", e.mapDom(s, mt, v.L[0])))
		it := &iterState{Map: v, MT: mt, V: "((as const (Array " + ks + " Bool)) false)", Dom0: dom}
		if fs := e.foldsFor(mt); len(fs) > 0 {
			it.Vals0 = e.define(s, "rvals", "(Array "+ks+" "+e.leaves(mt.Elem())[0].Sort+")", e.mapVals(s, mt, v.L[0]))
			for _, f := range fs {
				sym := e.foldSym(f, mt)
				s.assume(and(eq(app(sym, it.V, it.Vals0), "0"), app(">=", app(sym, dom, it.Vals0), "0")))
			}
		}
		s.Iters[x] = it
		return
	}
	s.Iters[x] = &iterState{Str: v}
}

func (e *Engine) execNext(s *State, x *ssa.Next) []*State {
	it := s.Iters[x.Iter]
	if it == nil {
		e.unsupportedf("next without range state")
	}
	e.checkGuardContents(s, it.Map, x, false)
	if it.MT == nil {
		// range over string: abstract (ok, index, rune)
		e.note("range over string abstracted (arbitrary number of iterations, unconstrained runes)")
		r := e.havocVal(s, x.Type(), "strnext")
		s.top().Vals[x] = r
		return nil
	}
	mt := it.MT
	_, _, ks := e.mapNames(mt)
	done := s.clone()
	e.pathCounter++
	done.PathID = e.pathCounter
	// exhausted: visited == dom
	done.assume(eq(it.V, it.Dom0))
	zk, zv := e.zero(mt.Key()), e.zero(mt.Elem())
	done.top().Vals[x] = &Val{Tup: []*Val{{L: []string{"false"}}, zk, zv}, L: append(append([]string{"false"}, zk.L...), zv.L...)}
	// one more element
	k := e.havocVal(s, mt.Key(), "rk")
	s.assume(and(app("select", it.Dom0, k.L[0]), not(app("select", it.V, k.L[0]))))
	v, _ := e.mapLoad(s, mt, it.Map.L[0], k)
	if strings.Contains(e.C.Containers[it.Map.Src], "nonnil") && len(v.L) == 1 {
		s.assume(not(eq(v.L[0], "0")))
	}
	nit := *it
	nit.V = e.define(s, "visited", "(Array "+ks+" Bool)", app("store", it.V, k.L[0], "true"))
	if it.Vals0 != "" {
		for _, f := range e.foldsFor(mt) {
			sym := e.foldSym(f, mt)
			w := e.define(s, "w_"+f.Name, "Int", e.foldWeight(s, f, mt, k.L[0], app("select", it.Vals0, k.L[0])))
			s.assume(and(app(">=", w, "0"),
				eq(app(sym, nit.V, it.Vals0), app("+", app(sym, it.V, it.Vals0), w)),
				app("<=", app(sym, nit.V, it.Vals0), app(sym, it.Dom0, it.Vals0)),
				app(">=", app(sym, it.V, it.Vals0), "0")))
		}
	}
	s.Iters[x.Iter] = &nit
	s.top().Vals[x] = &Val{Tup: []*Val{{L: []string{"true"}}, k, v}, L: append(append([]string{"true"}, k.L...), v.L...)}
	return []*State{s, done}
}

// ---- channels, goroutines ---------------------------------------------------------------

func (e *Engine) event(s *State, ev Event) {
	for k := range s.Held {
		ev.Held = append(ev.Held, k)
	}
	s.Trace = append(s.Trace, ev)
}

func (e *Engine) execSend(s *State, x *ssa.Send) {
	ch := e.val(s, x.Chan)
	c := ch.L[0]
	e.containerWrite(s, ch, e.val(s, x.X), x)
	if strings.Contains(e.C.Containers[ch.Src], "sendlocked") {
		held := e.guardHeldFor(s, ch) || s.FreshRefs[c]
		e.structural(e.oblName(s, x, "send-closed")+"/sendlocked", "guarded-access", x.Pos(), "send on "+ch.Src+" happens under its guard lock", held, "send on a sendlocked channel without the lock at "+e.P.Pos(x.Pos()))
	}
	e.chanInterfere(s, ch)
	cl := e.heapGet(s, "CL!", "(Array Int Int)")
	cc := e.heapGet(s, "CC!", "(Array Int Int)")
	room := app("<", app("select", cl, c), app("select", cc, c))
	private := s.FreshRefs[c]
	chName := x.Chan.Name()
	if ch.Src != "" {
		chName = ch.Src
	}
	ev := Event{Kind: "send", What: chName, Pos: e.P.Pos(x.Pos()), Instr: x, Blocking: true, Extra: map[string]string{"room": room, "chan": c}, Args: []*Val{e.val(s, x.X)}, ArgTypes: []types.Type{x.X.Type()}}
	if private {
		ev.Extra["private"] = "1"
	}
	ev.Extra["lines"] = fmt.Sprint(len(s.Lines))
	e.event(s, ev)
	e.heapSet(s, "CL!", "(Array Int Int)", app("store", cl, c, app("+", app("select", cl, c), "1")))
	e.escape(s, x.X.Type(), e.val(s, x.X))
}

// containerWrite checks the element invariant of a container field at a write.
func (e *Engine) containerWrite(s *State, cont, v *Val, in ssa.Instruction) {
	if !strings.Contains(e.C.Containers[cont.Src], "nonnil") || len(v.L) != 1 {
		return
	}
	goal := not(eq(v.L[0], "0"))
	if v.NN {
		goal = "true"
	}
	e.assert(s, e.oblName(s, in, "container-inv"), "container-inv", in.Pos(), "element written to "+cont.Src+" is non-nil", goal)
}

func (e *Engine) execRecv(s *State, x *ssa.UnOp) []*State {
	chv := e.val(s, x.X)
	e.chanInterfere(s, chv)
	{
		cl := e.heapGet(s, "CL!", "(Array Int Int)")
		cur := app("select", cl, chv.L[0])
		e.heapSet(s, "CL!", "(Array Int Int)", app("store", cl, chv.L[0], app("ite", app(">=", cur, "1"), app("-", cur, "1"), cur)))
	}
	rvName := x.X.Name()
	if chv.Src != "" {
		rvName = chv.Src
	}
	rev := Event{Kind: "recv", What: rvName, Pos: e.P.Pos(x.Pos()), Instr: x, Blocking: true, Extra: map[string]string{}}
	defer func() { e.event(s, rev) }()
	var et types.Type
	if x.CommaOk {
		et = x.Type().(*types.Tuple).At(0).Type()
	} else {
		et = x.Type()
	}
	v := e.havocVal(s, et, "rcv")
	e.assumeAllocatedVal(s, et, v)
	cinv := e.C.Containers[e.val(s, x.X).Src]
	nonnil := strings.Contains(cinv, "nonnil") && len(v.L) == 1
	if strings.Contains(cinv, "open") && nonnil && !x.CommaOk {
		s.assume(not(eq(v.L[0], "0")))
	}
	if nonnil && !x.CommaOk {
		// a receive without ok may also see the zero value of a closed channel: no assumption
		nonnil = false
	}
	if x.CommaOk {
		ok := e.declare(s, "rcvok", "Bool")
		rev.Extra["ok"] = ok
		if nonnil {
			s.assume(implies(ok, not(eq(v.L[0], "0"))))
		}
		s.assume(implies(not(ok), eq(v.L[0], e.zero(et).L[0])))
		s.top().Vals[x] = &Val{Tup: []*Val{v, {L: []string{ok}}}, L: append(append([]string{}, v.L...), ok)}
	} else {
		s.top().Vals[x] = v
	}
	return nil
}

func (e *Engine) execSelect(s *State, x *ssa.Select) []*State {
	ev := Event{Kind: "select", Pos: e.P.Pos(x.Pos()), Instr: x, Blocking: x.Blocking, Extra: map[string]string{}}
	var cases []string
	for _, st := range x.States {
		d := "recv"
		if st.Dir == types.SendOnly {
			d = "send"
		}
		cn := st.Chan.Name()
		if cv := e.val(s, st.Chan); cv.Src != "" {
			cn = cv.Src
		}
		cases = append(cases, d+":"+cn)
	}
	ev.What = strings.Join(cases, ",")
	tt := x.Type().(*types.Tuple)
	idx := e.declare(s, "selidx", "Int")
	lo := "0"
	if !x.Blocking {
		lo = "(- 1)"
	}
	s.assume(and(app("<=", lo, idx), app("<", idx, num(int64(len(x.States))))))
	r := &Val{Tup: []*Val{{L: []string{idx}}}}
	ok := e.declare(s, "selok", "Bool")
	ev.Extra["idx"], ev.Extra["ok"] = idx, ok
	nsend := 0
	for si, st := range x.States {
		if st.Dir == types.SendOnly {
			ev.Extra[fmt.Sprintf("sendchan%d", nsend)] = e.val(s, st.Chan).L[0]
			ev.Extra[fmt.Sprintf("sendcond%d", nsend)] = eq(idx, num(int64(si)))
			ev.Args = append(ev.Args, e.val(s, st.Send))
			ev.ArgTypes = append(ev.ArgTypes, st.Send.Type())
			nsend++
		}
	}
	e.event(s, ev)
	r.Tup = append(r.Tup, &Val{L: []string{ok}})
	ri := 0
	for i := 2; i < tt.Len(); i++ {
		v := e.havocVal(s, tt.At(i).Type(), "selrcv")
		e.assumeAllocatedVal(s, tt.At(i).Type(), v)
		r.Tup = append(r.Tup, v)
		// find the ri-th receive state to apply its container invariant
		k := 0
		for si, st := range x.States {
			if st.Dir == types.RecvOnly {
				if k == ri {
					cinv := e.C.Containers[e.val(s, st.Chan).Src]
					if strings.Contains(cinv, "nonnil") && len(v.L) == 1 {
						s.assume(implies(and(eq(idx, num(int64(si))), ok), not(eq(v.L[0], "0"))))
					}
					if strings.Contains(cinv, "open") {
						s.assume(implies(eq(idx, num(int64(si))), ok))
					}
					s.assume(implies(and(eq(idx, num(int64(si))), not(ok)), eq(v.L[0], e.zero(tt.At(i).Type()).L[0])))
				}
				k++
			}
		}
		ri++
	}
	for _, c := range r.Tup {
		r.L = append(r.L, c.L...)
	}
	// channel lengths: interference first, then the effect of the chosen case
	for si, st := range x.States {
		chv := e.val(s, st.Chan)
		e.chanInterfere(s, chv)
		cl := e.heapGet(s, "CL!", "(Array Int Int)")
		cc := e.heapGet(s, "CC!", "(Array Int Int)")
		cx := e.heapGet(s, "CX!", "(Array Int Bool)")
		c := chv.L[0]
		chosen := eq(idx, num(int64(si)))
		cur := app("select", cl, c)
		if st.Dir == types.SendOnly {
			e.escape(s, st.Send.Type(), e.val(s, st.Send))
			if strings.Contains(e.C.Containers[chv.Src], "sendlocked") {
				held := e.guardHeldFor(s, chv) || s.FreshRefs[c]
				e.structural(e.oblName(s, x, "guarded-access")+"/sendlocked", "guarded-access", x.Pos(), "send on "+chv.Src+" happens under its guard lock", held, "send on a sendlocked channel without the lock at "+e.P.Pos(x.Pos()))
			}
			// chosen => there was room; not chosen in a non-blocking select => it was full (when it is the only case)
			s.assume(implies(chosen, app("<", cur, app("select", cc, c))))
			if !x.Blocking && len(x.States) == 1 {
				s.assume(implies(eq(idx, "(- 1)"), app(">=", cur, app("select", cc, c))))
			}
			e.heapSet(s, "CL!", "(Array Int Int)", app("store", cl, c, app("ite", chosen, app("+", cur, "1"), cur)))
		} else {
			// chosen => something was buffered or the channel is closed; default => nothing was buffered
			s.assume(implies(chosen, or(app(">=", cur, "1"), app("select", cx, c), eq(app("select", cc, c), "0"))))
			if !x.Blocking && len(x.States) == 1 {
				s.assume(implies(eq(idx, "(- 1)"), eq(cur, "0")))
			}
			e.heapSet(s, "CL!", "(Array Int Int)", app("store", cl, c, app("ite", and(chosen, app(">=", cur, "1")), app("-", cur, "1"), cur)))
		}
	}
	s.top().Vals[x] = r
	return nil
}

func (e *Engine) execGo(s *State, x *ssa.Go) {
	c := e.captureCall(s, x.Common(), x)
	for _, a := range c.args {
		e.escape(s, nil, a)
	}
	what := "?"
	if c.fn != nil && c.fn.Fn != nil {
		what = e.P.FuncKey(c.fn.Fn)
	} else if x.Common().IsInvoke() {
		what = x.Common().Method.Name()
	}
	e.event(s, Event{Kind: "go", What: what, Args: c.args, Pos: e.P.Pos(x.Pos()), Instr: x})
	// the goroutine may run at any time: captured cells become shared
	if c.fn != nil {
		for _, b := range c.fn.Bind {
			if b.A != nil && b.A.K == ACell {
				s.Shared = append(s.Shared[:len(s.Shared):len(s.Shared)], b.A.Base)
			}
		}
	}
}

// ---- folds over finite maps ---------------------------------------------------------------------

func (e *Engine) foldsFor(mt *types.Map) []*Fold {
	var out []*Fold
	if e.C == nil {
		return nil
	}
	var names []string
	for n := range e.C.Folds {
		names = append(names, n)
	}
	sort.Strings(names)
	for _, n := range names {
		f := e.C.Folds[n]
		if types.TypeString(mt.Key().Underlying(), nil) == f.KType && types.TypeString(mt.Elem().Underlying(), nil) == f.VType && len(e.leaves(mt.Elem())) == 1 {
			out = append(out, f)
		}
	}
	return out
}

func (e *Engine) foldSym(f *Fold, mt *types.Map) string {
	ks := e.leaves(mt.Key())[0].Sort
	vs := e.leaves(mt.Elem())[0].Sort
	sym := "fold!" + f.Name
	e.globalDecl(fmt.Sprintf("(declare-fun %s ((Array %s Bool) (Array %s %s)) Int)", sym, ks, ks, vs))
	return sym
}

func (e *Engine) foldWeight(s *State, f *Fold, mt *types.Map, k, v string) string {
	c := &SpecCtx{Fn: s.top().Fn, Params: map[string]*Val{}, PTypes: map[string]types.Type{}, Bound: map[string]*SV{}}
	c.Bound[f.KName] = e.svOf(&Val{L: []string{k}}, mt.Key())
	c.Bound[f.VName] = e.svOf(&Val{L: []string{v}}, mt.Elem())
	return e.evalTerm(s, c, f.Body.Expr)
}

func (e *Engine) mapVals(s *State, mt *types.Map, m string) string {
	_, _, ks := e.mapNames(mt)
	lf := e.leaves(mt.Elem())[0]
	h := e.heapGet(s, e.mapValName(mt, lf.Path), "(Array Int (Array "+ks+" "+lf.Sort+"))")
	return app("select", h, m)
}

// ---- channel-length interference ------------------------------------------------------------------
// The buffered length of a channel is exact while the channel is private to this activation. For a
// channel held in a field declared "sendlocked" (every send happens with the guard lock of its struct
// held - checked at each send), other goroutines can only receive while we hold that lock, so the
// length may only have decreased since it was last known. For any other shared channel the length is
// unknown at every operation.
func (e *Engine) chanInterfere(s *State, ch *Val) {
	c := ch.L[0]
	if s.FreshRefs[c] {
		return
	}
	cl := e.heapGet(s, "CL!", "(Array Int Int)")
	n := e.declare(s, "clen", "Int")
	s.assume(app(">=", n, "0"))
	if strings.Contains(e.C.Containers[ch.Src], "sendlocked") && e.guardHeldFor(s, ch) {
		s.assume(app("<=", n, app("select", cl, c)))
	}
	e.interfere(s, "CL!", "(Array Int Int)", c, n)
}

// guardHeldFor: is the guard lock protecting the field this value was loaded from held (any mode)?
func (e *Engine) guardHeldFor(s *State, v *Val) bool {
	if v.Src == "" {
		return false
	}
	i := strings.LastIndex(v.Src, ".")
	skey, field := v.Src[:i], v.Src[i+1:]
	for _, g := range e.C.Guards {
		if g.Struct != skey {
			continue
		}
		for _, f := range g.Fields {
			if f == field {
				_, held := s.Held["F!"+skey+"!."+g.Lock+"@"+v.SrcBase]
				return held
			}
		}
	}
	return false
}
