package eng

import (
	"fmt"
	"go/token"
	"go/types"
	"sort"
	"strings"
	"time"

	"golang.org/x/tools/go/ssa"
)

// Structural termination of recursion (C11).
//
// Every function on a cycle of the module call graph must carry a contract clause
//     decreases tree(<param>)       - the named parameter gets structurally smaller at every recursive call
//     decreases visited(<param>)      - recursion is bounded by a visited collection that grows before each call
// For tree(p) the obligation at each call to a function of the same cycle is decided on the SSA def-use
// chain of the argument passed for the callee's decreasing parameter, relative to the caller's:
//     SUB   obtained by following a pointer/slice/map/interface held inside the value (KeyType, ValueType,
//           an element of a list or map, a field) - strictly smaller, data being finite trees
//     TDEF  the .Type of a typedef looked up by the value's own name - same expanded size, shorter typedef
//           chain (well-founded exactly when the typedef graph is acyclic: parser.validateTypedefs)
//     EQ    the value itself, possibly through UnderlyingType / FieldFromType / conversions - no progress
// The measure is the lexicographic pair (expanded size, typedef-chain length): SUB and TDEF decrease it,
// EQ and anything the walk cannot classify fail the obligation.

type descent int

const (
	dUnknown descent = iota
	dEQ
	dTDEF
	dSUB
)

func (d descent) String() string { return [...]string{"unknown", "EQ", "TDEF", "SUB"}[d] }

type descClass struct {
	param int
	rel   descent
}

type descWalker struct {
	fn    *ssa.Function
	memo  map[ssa.Value]descClass
	depth int
}

func joinDesc(a, b descClass) descClass {
	if a.param == -2 {
		return b // in-progress (cyclic definition through a reassigned local): neutral
	}
	if b.param == -2 {
		return a
	}
	if a.rel == dUnknown || b.rel == dUnknown || a.param != b.param {
		return descClass{-1, dUnknown}
	}
	if a.rel < b.rel {
		return a
	}
	return b
}

// sub: one step down from a value of class c.
func sub(c descClass) descClass {
	if c.rel == dUnknown || c.param < 0 {
		return c
	}
	return descClass{c.param, dSUB}
}

func (w *descWalker) class(v ssa.Value) descClass {
	if c, ok := w.memo[v]; ok {
		return c
	}
	if w.depth > 60 {
		return descClass{-1, dUnknown}
	}
	w.depth++
	defer func() { w.depth-- }()
	w.memo[v] = descClass{-2, dUnknown} // cycle guard: neutral while in progress
	c := w.class1(v)
	if c.param == -2 {
		c = descClass{-1, dUnknown}
	}
	w.memo[v] = c
	return c
}

func (w *descWalker) class1(v ssa.Value) descClass {
	switch x := v.(type) {
	case *ssa.Parameter:
		for i, p := range w.fn.Params {
			if p == x {
				return descClass{i, dEQ}
			}
		}
	case *ssa.UnOp:
		if x.Op != token.MUL {
			return descClass{-1, dUnknown}
		}
		switch a := x.X.(type) {
		case *ssa.Alloc:
			// a local: join over everything stored into it
			var res *descClass
			if a.Referrers() != nil {
				for _, r := range *a.Referrers() {
					if st, ok := r.(*ssa.Store); ok && st.Addr == ssa.Value(a) {
						c := w.class(st.Val)
						if res == nil {
							res = &c
						} else {
							j := joinDesc(*res, c)
							res = &j
						}
					}
				}
			}
			if res != nil {
				return *res
			}
		case *ssa.FieldAddr:
			base := w.class(a.X)
			st := deref(a.X.Type())
			fname := st.Underlying().(*types.Struct).Field(a.Field).Name()
			sk := structKey(st)
			switch {
			case sk == "parser.Field" && fname == "Type":
				return base // a Field is a wrapper around its Type
			case sk == "parser.TypeDef" && fname == "Type":
				if base.rel != dUnknown {
					if base.rel == dSUB {
						return base
					}
					return descClass{base.param, dTDEF}
				}
			default:
				return sub(base)
			}
		case *ssa.IndexAddr:
			return sub(w.class(a.X))
		}
	case *ssa.Alloc:
		// the address of a local (e.g. a struct copied out of a slice): what was stored into it
		var res *descClass
		if x.Referrers() != nil {
			for _, r := range *x.Referrers() {
				if st, ok := r.(*ssa.Store); ok && st.Addr == ssa.Value(x) {
					c := w.class(st.Val)
					if res == nil {
						res = &c
					} else {
						j := joinDesc(*res, c)
						res = &j
					}
				}
			}
		}
		if res != nil {
			return *res
		}
	case *ssa.FieldAddr, *ssa.IndexAddr:
		return descClass{-1, dUnknown}
	case *ssa.Field:
		return sub(w.class(x.X))
	case *ssa.Index:
		return sub(w.class(x.X))
	case *ssa.Lookup:
		// a map lookup: the value is held by the map; a typedef index lookup keyed by the value's own name
		// is how UnderlyingType finds the definition of an alias
		if mt, ok := x.X.Type().Underlying().(*types.Map); ok {
			if strings.HasSuffix(mt.Elem().String(), "parser.TypeDef") {
				k := w.class(x.Index)
				if k.rel != dUnknown {
					return descClass{k.param, dEQ} // the TypeDef "of" the value; its .Type is TDEF
				}
			}
			return sub(w.class(x.X))
		}
	case *ssa.Extract:
		return w.class(x.Tuple)
	case *ssa.Next:
		if rg, ok := x.Iter.(*ssa.Range); ok {
			return sub(w.class(rg.X))
		}
	case *ssa.TypeAssert:
		return w.class(x.X)
	case *ssa.ChangeInterface:
		return w.class(x.X)
	case *ssa.ChangeType:
		return w.class(x.X)
	case *ssa.MakeInterface:
		return w.class(x.X)
	case *ssa.Convert:
		return w.class(x.X)
	case *ssa.Slice:
		return w.class(x.X)
	case *ssa.Phi:
		var res *descClass
		for _, e := range x.Edges {
			c := w.class(e)
			if res == nil {
				res = &c
			} else {
				j := joinDesc(*res, c)
				res = &j
			}
		}
		if res != nil {
			return *res
		}
	case *ssa.Call:
		if bi, ok := x.Call.Value.(*ssa.Builtin); ok && bi.Name() == "append" {
			return w.class(x.Call.Args[0]) // the same collection, extended
		}
		if sc := x.Call.StaticCallee(); sc != nil {
			switch sc.Name() {
			case "UnderlyingType":
				// resolves aliases: same expanded size, and a non-alias result
				if len(x.Call.Args) == 2 {
					return w.class(x.Call.Args[1])
				}
			case "FieldFromType":
				return w.class(x.Call.Args[0])
			case "ParamName", "IncludeName", "String":
				// the name of a type identifies it (used as typedef index key)
				return w.class(x.Call.Args[0])
			}
		}
	}
	return descClass{-1, dUnknown}
}

// decreasingParam parses "struct(name)" / "visited(name)" from a decreases clause.
func decreasingParam(ct *Contract, fn *ssa.Function) (kind string, idx int) {
	kind, idx = declaredDecreasingParam(ct, fn)
	if idx == -1 && (kind == "" || kind == "tree") {
		// no clause, or a clause naming a parameter that no longer exists (renamed): a directly recursive
		// function whose every self-call passes a strict component of one and the same parameter carries
		// its measure in the code; use that parameter
		if i := inferDecreasingParam(fn); i >= 0 {
			return "tree", i
		}
	}
	return kind, idx
}

// inferDecreasingParam: index of a parameter such that every recursive call of fn is a call of fn itself
// and passes, for that parameter, a strictly smaller value derived from it; -1 if there is none.
func inferDecreasingParam(fn *ssa.Function) int {
	type site struct{ c *ssa.CallCommon }
	var sites []site
	for _, b := range fn.Blocks {
		for _, in := range b.Instrs {
			var c *ssa.CallCommon
			switch x := in.(type) {
			case *ssa.Call:
				c = x.Common()
			case *ssa.Go:
				c = x.Common()
			case *ssa.Defer:
				c = x.Common()
			}
			if c != nil && c.StaticCallee() == fn {
				sites = append(sites, site{c})
			}
		}
	}
	if len(sites) == 0 {
		return -1 // recursion through other functions: needs declared measures
	}
	for i := range fn.Params {
		w := &descWalker{fn: fn, memo: map[ssa.Value]descClass{}}
		ok := true
		for _, st := range sites {
			if i >= len(st.c.Args) {
				ok = false
				break
			}
			cl := w.class(st.c.Args[i])
			if cl.rel == dUnknown || cl.rel == dEQ || cl.param != i {
				ok = false
				break
			}
		}
		if ok {
			return i
		}
	}
	return -1
}

func declaredDecreasingParam(ct *Contract, fn *ssa.Function) (kind string, idx int) {
	if ct == nil || ct.Decreases == nil {
		return "", -1
	}
	txt := strings.TrimSpace(ct.Decreases.Text)
	for _, k := range []string{"tree", "visited"} {
		if strings.HasPrefix(txt, k+"(") && strings.HasSuffix(txt, ")") {
			name := strings.TrimSpace(txt[len(k)+1 : len(txt)-1])
			for i, p := range fn.Params {
				if p.Name() == name {
					return k, i
				}
			}
			for i, pn := range ct.ParamNames {
				if pn == name && i < len(fn.Params) {
					return k, i // the contract's positional name for a parameter that was renamed
				}
			}
			if k == "visited" && strings.Contains(name, ".") {
				return k, -2 // a package-level collection, matched by name
			}
			return k, -1
		}
	}
	return "", -1
}

func init() {
	analyses["structural-recursion"] = analyseStructuralRecursion
}

// analyseStructuralRecursion: see the comment at the top of this file. args["exclude_file"]: source files
// whose functions are excluded and named as excluded (the generated PEG parser).
func analyseStructuralRecursion(as AnalysisSpec, progs []*Program, cs *Contracts, funcs []*FuncResult, work string, timeout time.Duration) *AnalysisResult {
	ar := &AnalysisResult{Name: as.Name}
	excluded := 0
	var eqEdges [][2]*ssa.Function
	eqObl := map[string]*OblResult{}
	defer func() {
		// the graph of no-progress edges must be acyclic
		adj := map[*ssa.Function][]*ssa.Function{}
		for _, e := range eqEdges {
			adj[e[0]] = append(adj[e[0]], e[1])
		}
		var reach func(from, to *ssa.Function, seen map[*ssa.Function]bool) bool
		reach = func(from, to *ssa.Function, seen map[*ssa.Function]bool) bool {
			if from == to {
				return true
			}
			if seen[from] {
				return false
			}
			seen[from] = true
			for _, n := range adj[from] {
				if reach(n, to, seen) {
					return true
				}
			}
			return false
		}
		for i, e := range eqEdges {
			o := eqObl[fmt.Sprint(i)]
			if reach(e[1], e[0], map[*ssa.Function]bool{}) {
				o.Result, o.Why = "failed", "a cycle of recursive calls passes the parameter on unchanged (no progress)"
			} else {
				o.Desc += " [same value; every cycle through this call has a strictly decreasing call]"
			}
		}
	}()
	for _, p := range progs {
		for _, fn := range p.RecursiveFuncs() {
			pos := p.Pos(fn.Pos())
			if ex := as.Args["exclude_file"]; ex != "" && strings.Contains(pos, ex) {
				excluded++
				continue
			}
			key := p.FuncKey(fn)
			ct := cs.Funcs[key]
			kind, pidx := decreasingParam(ct, fn)
			if kind == "" || pidx == -1 {
				ar.Obls = append(ar.Obls, &OblResult{Name: key + "/decreases-missing", Kind: "rec-decreases", Func: key, Pos: pos, Backend: "ssa-walker", Result: "failed", Why: "recursive function without a decreases tree(p) / visited(p) clause naming one of its parameters"})
				continue
			}
			w := &descWalker{fn: fn, memo: map[ssa.Value]descClass{}}
			site := 0
			for _, b := range fn.Blocks {
				for _, in := range b.Instrs {
					var c *ssa.CallCommon
					switch x := in.(type) {
					case *ssa.Call:
						c = x.Common()
					case *ssa.Go:
						c = x.Common()
					case *ssa.Defer:
						c = x.Common()
					}
					if c == nil {
						continue
					}
					callee := c.StaticCallee()
					if callee == nil || !p.SameSCC(fn, callee) {
						continue
					}
					ckey := p.FuncKey(callee)
					o := &OblResult{Name: fmt.Sprintf("%s/rec-decreases#%d", key, site), Kind: "rec-decreases", Func: key, Pos: p.Pos(in.Pos()), Backend: "ssa-walker", Result: "discharged", Desc: "recursive call to " + ckey + " passes a structurally smaller value for its decreasing parameter"}
					site++
					ar.Obls = append(ar.Obls, o)
					ckind, cidx := decreasingParam(cs.Funcs[ckey], callee)
					if ckind == "" || cidx == -1 || cidx >= len(c.Args) {
						o.Result, o.Why = "failed", "callee has no usable decreases clause"
						continue
					}
					if ckind == "visited" || kind == "visited" {
						gname := ""
						if pidx == -2 {
							txt := strings.TrimSpace(ct.Decreases.Text)
							gname = txt[len("visited(") : len(txt)-1]
						}
						ok, why := visitedGuard(fn, pidx, gname, in)
						if !ok {
							o.Result, o.Why = "failed", why
						} else {
							o.Desc = "recursive call to " + ckey + " is preceded by a membership test and an insertion on the visited collection"
						}
						continue
					}
					cl := w.class(c.Args[cidx])
					// a value of basic type handed to an interface-typed decreasing parameter is a leaf of
					// the value tree: smaller than any composite value
					if mi, ok := c.Args[cidx].(*ssa.MakeInterface); ok && cl.rel == dUnknown {
						if _, isBasic := mi.X.Type().Underlying().(*types.Basic); isBasic {
							cl = descClass{pidx, dSUB}
							o.Desc += " [leaf value]"
						}
					}
					if cl.rel == dEQ && cl.param == pidx && callee != fn {
						// no progress on this edge: allowed in a mutual recursion when every cycle through it
						// has a strictly decreasing edge (checked below)
						eqEdges = append(eqEdges, [2]*ssa.Function{fn, callee})
						eqObl[fmt.Sprint(len(eqEdges)-1)] = o
						continue
					}
					switch {
					case cl.rel == dUnknown:
						o.Result, o.Why = "failed", "cannot relate the argument to a parameter of the caller"
					case cl.param != pidx:
						o.Result, o.Why = "failed", fmt.Sprintf("argument derives from parameter %s, not from the decreasing parameter %s", fn.Params[cl.param].Name(), fn.Params[pidx].Name())
					case cl.rel == dEQ:
						o.Result, o.Why = "failed", "argument is the parameter itself (no progress)"
					default:
						o.Desc += " [" + cl.rel.String() + " of " + fn.Params[pidx].Name() + "]"
					}
				}
			}
		}
	}
	sort.Slice(ar.Obls, func(i, j int) bool { return ar.Obls[i].Name < ar.Obls[j].Name })
	ar.Summary = fmt.Sprintf("%d recursive-call sites checked; %d recursive functions of the generated parser excluded", len(ar.Obls), excluded)
	return ar
}

// visitedGuard: the function tests membership of something in the visited collection (parameter pidx) and
// extends the collection, both in blocks that dominate the recursive call.
func visitedGuard(fn *ssa.Function, pidx int, gname string, call ssa.Instruction) (bool, string) {
	w := &descWalker{fn: fn, memo: map[ssa.Value]descClass{}}
	fromParam := func(v ssa.Value) bool {
		if gname != "" {
			// a package-level collection: a load of that global
			if u, ok := v.(*ssa.UnOp); ok {
				if g, ok := u.X.(*ssa.Global); ok && g.Pkg != nil {
					return PkgShort(g.Pkg.Pkg.Path())+"."+g.Name() == gname
				}
			}
			return false
		}
		c := w.class(v)
		return c.rel != dUnknown && c.param == pidx
	}
	test, extend := false, false
	cb := call.Block()
	for _, b := range fn.Blocks {
		if !b.Dominates(cb) {
			continue
		}
		for _, in := range b.Instrs {
			if b == cb {
				// only instructions before the call
				before := false
				for _, y := range cb.Instrs {
					if y == in {
						before = true
					}
					if y == call {
						break
					}
				}
				if !before {
					continue
				}
			}
			switch x := in.(type) {
			case *ssa.Lookup:
				if x.CommaOk && fromParam(x.X) {
					test = true
				}
			case *ssa.MapUpdate:
				if fromParam(x.Map) {
					extend = true
				}
			case *ssa.Call:
				if bi, ok := x.Call.Value.(*ssa.Builtin); ok && bi.Name() == "append" && fromParam(x.Call.Args[0]) {
					extend = true
				}
				if sc := x.Call.StaticCallee(); sc != nil && sc.Name() == "contains" && len(x.Call.Args) > 0 && fromParam(x.Call.Args[0]) {
					test = true
				}
			}
		}
	}
	switch {
	case !test:
		return false, "no membership test on the visited collection dominates the recursive call"
	case !extend:
		return false, "the visited collection is not extended before the recursive call"
	}
	return true, ""
}

var _ = time.Second
