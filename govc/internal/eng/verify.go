package eng

import (
	"go/ast"
	"fmt"
	"go/types"
	"os"
	"regexp"
	"sort"
	"strings"
	"sync"
	"time"

	"golang.org/x/tools/go/ssa"
)

// OblResult is the decided status of one obligation.
type OblResult struct {
	Name    string `json:"name"`
	Kind    string `json:"kind"`
	Func    string `json:"function"`
	Pos     string `json:"pos"`
	Desc    string `json:"desc"`
	Result  string `json:"result"` // discharged | failed | undecided
	Backend string `json:"backend"`
	Ms      int64  `json:"ms"`
	Queries int    `json:"queries"`
	Why     string `json:"why,omitempty"`
	Model   string `json:"-"`
	FailQ   *Query `json:"-"`
	Raw     string `json:"-"`
}

type FuncResult struct {
	Key         string
	Fn          *ssa.Function
	Obls        []*OblResult
	Notes       []string
	Unsupported string
	Paths       int
	Returns     int
	CoverOK     bool
	Events      [][]Event // per finished path
	PathEnds    []*PathEnd
	Engine      *Engine
	ExclEngine  *Engine
	Ms          int64
}

// VerifyFunc generates and discharges every obligation of fn.
func VerifyFunc(p *Program, cs *Contracts, fn *ssa.Function, cfg *CheckConfig, workdir string, timeout time.Duration) (res *FuncResult) {
	t0 := time.Now()
	e := NewEngine(p, cs, fn, cfg)
	res = &FuncResult{Key: e.FnKey, Fn: fn, Engine: e}
	func() {
		defer func() {
			if r := recover(); r != nil {
				if u, ok := r.(unsupported); ok {
					res.Unsupported = u.msg
					return
				}
				panic(r)
			}
		}()
		e.generate()
		e.postApplicability()
	}()
	for n := range e.Notes {
		res.Notes = append(res.Notes, n)
	}
	sort.Strings(res.Notes)
	res.PathEnds = e.Paths
	for _, pe := range e.Paths {
		if pe.Kind == "return" {
			res.Returns++
		}
	}
	res.Paths = len(e.Paths)
	if res.Unsupported != "" {
		res.Ms = time.Since(t0).Milliseconds()
		return res
	}
	res.Obls = e.Discharge(workdir, timeout)
	if e.Contract != nil && len(e.Contract.EnsuresExcl) > 0 {
		// second pass: same code, receiver exclusively owned; only the exclusive postconditions count
		e2 := NewEngine(p, cs, fn, cfg)
		e2.Exclusive = true
		func() {
			defer func() {
				if r := recover(); r != nil {
					if u, ok := r.(unsupported); ok {
						res.Unsupported = "exclusive pass: " + u.msg
						return
					}
					panic(r)
				}
			}()
			e2.generate()
		}()
		for _, o := range e2.Discharge(workdir, timeout) {
			if strings.Contains(o.Name, "/post-exclusive#") {
				res.Obls = append(res.Obls, o)
			} else if strings.Contains(o.Name, "-inv-") {
				// loop invariants of the sequential pass (includes the exclusive-only ones)
				o.Name = strings.Replace(o.Name, "/loop", "/seq-loop", 1)
				res.Obls = append(res.Obls, o)
			}
		}
		res.ExclEngine = e2
	}
	// cover: at least one return path (or loop-back) must be feasible, otherwise the contract is vacuous
	res.CoverOK = e.cover(workdir, timeout)
	res.Ms = time.Since(t0).Milliseconds()
	return res
}

// generate runs the symbolic execution of the function under its contract.
func (e *Engine) generate() {
	fn := e.Fn
	s := &State{Decl: map[string]bool{}, Locals: map[*ssa.Alloc]*cell{}, Heap: map[string]string{}, Held: map[string]string{},
		Iters: map[ssa.Value]*iterState{}, FreshRefs: map[string]bool{}, LoopEntry: map[*ssa.BasicBlock]map[string]string{}, Ghost: map[string]string{}}
	e.strLit("")
	e.heapGet(s, "Alloc", "(Array Int Bool)") // the allocation set at entry is H0!Alloc
	var args []*Val
	for i, p := range fn.Params {
		v := e.havocVal(s, p.Type(), "p_"+p.Name())
		e.assumeAllocatedVal(s, p.Type(), v)
		if i == 0 && fn.Signature.Recv() != nil {
			v.NN = true
			if isRefLike(p.Type()) {
				s.assume(not(eq(v.L[0], "0")))
			}
		} else if e.Contract == nil || !e.Contract.Flag("nilcheck-params") {
			// pointer and interface parameters are trusted non-nil where dereferenced (listed assumption)
			v.NN = true
		}
		args = append(args, v)
	}
	var binds []*Val
	for _, fv := range fn.FreeVars {
		// free variable of a closure verified on its own: a shared cell
		t := deref(fv.Type())
		r := e.declare(s, "fv_"+fv.Name(), "Int")
		s.assume(app(">", r, "0"))
		al := e.heapGet(s, "Alloc", "(Array Int Bool)")
		s.assume(app("select", al, r))
		if _, ok := t.Underlying().(*types.Struct); ok {
			binds = append(binds, &Val{L: []string{r}, NN: true})
		} else {
			binds = append(binds, &Val{A: &Addr{K: ACell, Base: r, T: t}, L: []string{r}, NN: true})
		}
	}
	e.snapEntry(s, fn, args, 0)
	ctx := &SpecCtx{Fn: fn, Params: s.Entry[0].Params, PTypes: s.Entry[0].PTypes, Bound: map[string]*SV{}}
	if e.Contract != nil {
		for _, rq := range e.Contract.Requires {
			// the frame does not exist yet; requires only mention parameters and the heap
			s.assume(e.evalBool(s, ctx, rq.Expr))
		}
	}
	s.Entry[0].Heap = map[string]string{}
	for k, v := range s.Heap {
		s.Entry[0].Heap[k] = v
	}
	if e.Contract != nil && e.Contract.Flag("noescape") {
		ok, why := checkNoEscape(e)
		e.structural(e.FnKey+"/noescape", "noescape", fn.Pos(), "pointer parameters are not retained", ok, why)
	}
	// termination of recursion: a function on a call-graph cycle needs a measure
	if e.P.Recursive(fn) && !structuralMeasure(e.Contract) {
		if e.Contract == nil || e.Contract.Decreases == nil {
			e.structural(e.FnKey+"/decreases-missing", "rec-decreases", fn.Pos(), "recursive function has a decreases clause", false, "function is on a call-graph cycle and has no decreases clause")
		} else {
			e.entryMeasure = e.define(s, "measure0", "Int", e.evalTerm(s, ctx, e.Contract.Decreases.Expr))
		}
	}
	e.entryLines = len(s.Lines)
	e.entryState = s.clone()
	outs := e.runFunc(s, fn, args, binds, "")
	for _, o := range outs {
		e.Paths = append(e.Paths, &PathEnd{S: o.s, Results: o.results, Kind: "return", Lines: o.s.Lines[:len(o.s.Lines):len(o.s.Lines)]})
		e.checkPost(o)
		if !e.Exclusive {
			e.checkFrame(o)
			// every lock this activation took is released when it returns (a leaked lock wedges every later
			// user of the object, and skips the invariant check that happens at Unlock)
			if !o.panic && (e.Contract == nil || !e.Contract.Flag("returns-locked")) {
				var held []string
				for k := range o.s.Held {
					held = append(held, k)
				}
				sort.Strings(held)
				e.structural(e.FnKey+"/lock-released", "lock-released", fn.Pos(), "no lock taken by the function is still held when it returns", len(held) == 0, "returns while still holding "+strings.Join(held, ", "))
			}
		}
	}
}

func (e *Engine) checkPost(o outcome) {
	if e.Contract == nil {
		return
	}
	fn := e.Fn
	s := o.s
	// postconditions are evaluated with an empty frame stack: re-push a pseudo frame for name lookup
	fr := o.frame
	if fr == nil {
		fr = &Frame{Fn: fn, Vals: map[ssa.Value]*Val{}, Depth: 0}
	}
	s.Frames = append(s.Frames, fr)
	defer func() { s.Frames = s.Frames[:len(s.Frames)-1] }()
	// names resolve to results, then to entry values of parameters, then to the final value of locals
	ctx := &SpecCtx{Fn: fn, Params: s.Entry[0].Params, PTypes: s.Entry[0].PTypes, Bound: map[string]*SV{}, OldHeap: s.Entry[0].Heap, Results: o.results, Frame: fr, UseLocals: true, ParamsFirst: true}
	if ctx.Results == nil {
		ctx.Results = []*Val{}
	}
	res := fn.Signature.Results()
	for i := 0; i < res.Len(); i++ {
		ctx.RTypes = append(ctx.RTypes, res.At(i).Type())
		ctx.RNames = append(ctx.RNames, res.At(i).Name())
	}
	if e.Exclusive {
		for k, en := range e.Contract.EnsuresExcl {
			t, _ := e.tryEvalBool(s, ctx, en.Expr)
			e.assert(s, fmt.Sprintf("%s/post-exclusive#%d", e.FnKey, k), "post", fn.Pos(), en.Text+"  [receiver exclusively owned]", t)
		}
		return
	}
	if e.postSeen == nil {
		e.postSeen = map[int]int{}
	}
	e.postReturns++
	for k, en := range e.Contract.Ensures {
		t, ok := e.tryEvalBool(s, ctx, en.Expr)
		if ok {
			e.postSeen[k]++
		} else if ce, isCall := en.Expr.(*ast.CallExpr); isCall && len(ce.Args) == 2 {
			// "A ==> B" where B speaks about a call (or local) that does not occur on this path while A can
			// be evaluated: B cannot hold here, so the path must not satisfy A. (Skipping the clause would
			// let a path that simply omits the call pass.)
			if id, isId := ce.Fun.(*ast.Ident); isId && id.Name == "implies" {
				if a, okA := e.tryEvalBool(s, ctx, ce.Args[0]); okA {
					e.postSeen[k]++
					t = not(a)
				}
			}
		}
		e.assert(s, fmt.Sprintf("%s/post#%d", e.FnKey, k), "post", fn.Pos(), en.Text, t)
	}
}

// postApplicability: a postcondition that speaks about a call (callarg, callret, ...) or a local says
// nothing on a return path without that call or local. A clause that says nothing on every return path
// would verify whatever the code does, so it is reported as failed.
func (e *Engine) postApplicability() {
	if e.Contract == nil || e.Exclusive || e.postReturns == 0 {
		return
	}
	for k, en := range e.Contract.Ensures {
		if e.postSeen[k] == 0 {
			e.structural(fmt.Sprintf("%s/post-applies#%d", e.FnKey, k), "post", e.Fn.Pos(), en.Text, false,
				"the clause is not applicable on any return path (a call or local it mentions never occurs), so it constrains nothing")
		}
	}
}

var reSf = regexp.MustCompile(`sf![A-Za-z0-9_]+`)

// assemble builds the full SMT text of a query.
func (e *Engine) assemble(q *Query, negGoal bool) string {
	var b strings.Builder
	for _, l := range e.globalDecls {
		b.WriteString(l)
		b.WriteByte('\n')
	}
	// declared spec functions and their defining axioms: only those the query mentions (a quantified
	// axiom in every query would keep the solvers from answering sat/unsat quickly)
	if e.C != nil {
		body := strings.Join(q.Lines, "\n") + "\n" + q.Goal + "\n" + strings.Join(e.globalDecls, "\n")
		used := map[string]bool{}
		var axioms []string
		for _, ax := range e.C.SMT {
			syms := reSf.FindAllString(ax, -1)
			hit := false
			for _, sy := range syms {
				if strings.Contains(body, sy) {
					hit = true
				}
			}
			if hit {
				axioms = append(axioms, ax)
				for _, sy := range syms {
					used[strings.TrimPrefix(sy, "sf!")] = true
				}
			}
		}
		var names []string
		for n := range e.C.SpecFns {
			if used[n] || strings.Contains(body, "sf!"+n) {
				names = append(names, n)
			}
		}
		sort.Strings(names)
		for _, n := range names {
			sf := e.C.SpecFns[n]
			b.WriteString(fmt.Sprintf("(declare-fun sf!%s (%s) %s)\n", n, strings.Join(sf.Args, " "), sf.Res))
		}
		for _, ax := range axioms {
			b.WriteString(ax + "\n")
		}
	}
	if d := e.strDistinct(); d != "" {
		b.WriteString(d)
		b.WriteByte('\n')
	}
	// implements() facts for concrete dynamic types
	var ifs []string
	for k := range e.ifaceAsserted {
		ifs = append(ifs, k)
	}
	sort.Strings(ifs)
	for _, k := range ifs {
		it := e.ifaceAsserted[k]
		for i, t := range e.tagTypes {
			if t == nil {
				continue
			}
			if _, isIface := t.Underlying().(*types.Interface); isIface {
				continue
			}
			b.WriteString(fmt.Sprintf("(assert (= (%s %d) %v))\n", k, i+1, types.Implements(t, it)))
		}
	}
	seen := map[string]bool{}
	for _, l := range q.Lines {
		if strings.HasPrefix(l, "(declare-") {
			if seen[l] {
				continue
			}
			seen[l] = true
		}
		b.WriteString(l)
		b.WriteByte('\n')
	}
	if negGoal {
		b.WriteString("(assert (not " + q.Goal + "))\n")
	}
	return b.String()
}

// Discharge sends every query to the solvers.
func (e *Engine) Discharge(workdir string, timeout time.Duration) []*OblResult {
	var out []*OblResult
	var mu sync.Mutex
	var wg sync.WaitGroup
	for _, name := range e.OblOrder {
		o := e.Obls[name]
		r := &OblResult{Name: o.Name, Kind: o.Kind, Func: o.Func, Pos: o.Pos, Desc: o.Desc, Queries: len(o.Queries)}
		out = append(out, r)
		if o.Structural {
			r.Backend = "ssa-walker"
			if o.StructOK {
				r.Result = "discharged"
			} else {
				r.Result = "failed"
				r.Why = o.StructWhy
			}
			continue
		}
		if len(o.Queries) == 0 {
			r.Result = "discharged"
			r.Backend = "simplifier"
			continue
		}
		r.Result = "discharged"
		for qi, q := range o.Queries {
			wg.Add(1)
			go func(r *OblResult, q *Query, qi int) {
				defer wg.Done()
				text := e.assemble(q, true)
				sr := Solve(workdir, fmt.Sprintf("%s.q%d", r.Name, qi), text, timeout, "")
				mu.Lock()
				defer mu.Unlock()
				r.Ms += sr.Ms
				switch sr.Result {
				case "unsat":
					if r.Backend == "" || !strings.Contains(r.Backend, sr.Solver) {
						if r.Backend != "" {
							r.Backend += ","
						}
						r.Backend += sr.Solver
					}
				case "sat":
					if r.Result != "failed" {
						r.Result = "failed"
						r.Model = sr.Model
						r.FailQ = q
						r.Why = "counter-model from " + sr.Solver
						r.Raw = sr.Raw
					}
				default:
					if r.Result == "discharged" {
						r.Result = "undecided"
						r.Why = sr.Result + " (" + sr.Solver + ")"
						r.FailQ = q
						r.Raw = sr.Raw
					}
				}
			}(r, q, qi)
		}
	}
	wg.Wait()
	return out
}

// cover checks that at least one finished path is feasible.
func (e *Engine) cover(workdir string, timeout time.Duration) bool {
	if len(e.Paths) == 0 {
		return false
	}
	ok := false
	var mu sync.Mutex
	var wg sync.WaitGroup
	n := 0
	for _, pe := range e.Paths {
		if n > 0 && n%6 == 0 {
			// batches of six: stop as soon as one path is known to be feasible (an infeasible prefix of
			// the path list - e.g. a defensive branch that can never be taken - must not look like vacuity)
			wg.Wait()
			mu.Lock()
			done := ok
			mu.Unlock()
			if done || n >= 120 {
				break
			}
		}
		n++
		wg.Add(1)
		go func(pe *PathEnd) {
			defer wg.Done()
			ls := pe.Lines
			if ls == nil {
				ls = pe.S.Lines
			}
			q := &Query{Lines: ls, Goal: "true"}
			ct := timeout
			if ct > 3*time.Second {
				ct = 3 * time.Second
			}
			sr := Solve(workdir, fmt.Sprintf("%s.cover%d", e.FnKey, pe.S.PathID), e.assemble(q, false), ct, "")
			if sr.Result == "sat" || sr.Result == "unknown" || sr.Result == "timeout" {
				mu.Lock()
				ok = true
				mu.Unlock()
			}
		}(pe)
	}
	wg.Wait()
	return ok
}

// DumpQuery writes the failing query for the replay/diagnostics file.
func (e *Engine) DumpQuery(q *Query, path string) error {
	return os.WriteFile(path, []byte(Prelude+e.assemble(q, true)+"(check-sat)\n(get-model)\n"), 0o644)
}

// checkFrame: the modifies clause is an obligation of the function itself. For every heap map whose value
// at this return differs from its value at entry, every location that existed at entry and is not named
// by a modifies clause must hold its entry value. (Callers rely on exactly this when they keep facts
// across the call.)
func (e *Engine) checkFrame(o outcome) {
	ct := e.Contract
	if ct == nil || ct.Flag("noframe") || ct.Flag("inline") {
		return
	}
	for _, m := range ct.Modifies {
		if m == "*" {
			return
		}
	}
	s := o.s
	fn := e.Fn
	fr := o.frame
	if fr == nil {
		fr = &Frame{Fn: fn, Vals: map[ssa.Value]*Val{}}
	}
	s.Frames = append(s.Frames, fr)
	defer func() { s.Frames = s.Frames[:len(s.Frames)-1] }()
	ctx := &SpecCtx{Fn: fn, Params: s.Entry[0].Params, PTypes: s.Entry[0].PTypes, Bound: map[string]*SV{}, OldHeap: s.Entry[0].Heap, Results: o.results, Frame: fr, UseLocals: true, ParamsFirst: true}
	if ctx.Results == nil {
		ctx.Results = []*Val{}
	}
	res := fn.Signature.Results()
	for i := 0; i < res.Len(); i++ {
		ctx.RTypes = append(ctx.RTypes, res.At(i).Type())
		ctx.RNames = append(ctx.RNames, res.At(i).Name())
	}
	excs := e.frameExceptions(s, ctx)
	var names []string
	for name := range s.Heap {
		names = append(names, name)
	}
	sort.Strings(names)
	al0 := "H0!Alloc"
	var goals []string
	for _, name := range names {
		cur := s.Heap[name]
		old, had := s.Base[name]
		if !had {
			old, had = s.Entry[0].Heap[name]
		}
		if !had {
			old = "H0!" + name
			if !s.Decl[old] {
				continue // first touched after a havoc that the modifies clause must already cover... handled below
			}
		}
		if cur == old {
			continue
		}
		sortS := e.heapSorts[name]
		if strings.HasPrefix(name, "CC!") {
			continue
		}
		var objs []string
		whole := false
		for _, x := range excs {
			if strings.HasPrefix(name, x.prefix) {
				if x.obj == "" {
					whole = true
				} else {
					objs = append(objs, x.obj)
				}
			}
		}
		if whole {
			continue
		}
		if !strings.HasPrefix(sortS, "(Array Int ") {
			goals = append(goals, eq(cur, old))
			continue
		}
		conds := []string{app("select", al0, "r!f")}
		for _, ob := range objs {
			conds = append(conds, not(eq("r!f", ob)))
		}
		goals = append(goals, fmt.Sprintf("(forall ((r!f Int)) (=> %s (= (select %s r!f) (select %s r!f))))", and(conds...), cur, old))
	}
	// an epoch bump (unknown callee / modifies * callee) without a covering clause breaks the frame outright
	if s.Epoch > 0 {
		goals = append(goals, "false")
	}
	if len(goals) == 0 {
		e.assert(s, e.FnKey+"/frame", "frame", fn.Pos(), "only what the modifies clause names is changed", "true")
		return
	}
	e.assert(s, e.FnKey+"/frame", "frame", fn.Pos(), "only what the modifies clause names is changed", and(goals...))
}

type frameExc struct {
	prefix string
	obj    string
}

// frameExceptions evaluates the modifies clauses of the contract into (heap prefix, object) pairs.
func (e *Engine) frameExceptions(s *State, ctx *SpecCtx) []frameExc {
	ct := e.Contract
	type exc = frameExc
	var excs []exc
	for _, m := range ct.Modifies {
		switch {
		case m == "alloc":
			excs = append(excs, exc{"Alloc", ""})
		case strings.HasPrefix(m, "heap(") && strings.HasSuffix(m, ")"):
			excs = append(excs, exc{m[5 : len(m)-1], ""})
		case strings.HasPrefix(m, "elems(") && strings.HasSuffix(m, ")"):
			cl, err := parseClause(m[6 : len(m)-1])
			if err != nil {
				continue
			}
			c2 := *ctx
			c2.InOld = !strings.Contains(m, "result")
			func() {
				defer func() { recover() }()
				sv := e.eval(s, &c2, cl.Expr)
				sl := sv.T.Underlying().(*types.Slice)
				excs = append(excs, exc{"E!" + typeKey(sl.Elem()), sv.V.L[0]})
			}()
		case strings.HasPrefix(m, "mapof(") && strings.HasSuffix(m, ")"):
			cl, err := parseClause(m[6 : len(m)-1])
			if err != nil {
				continue
			}
			func() {
				defer func() { recover() }()
				// the map object named at entry and the one named at exit may both change
				for _, old := range []bool{true, false} {
					c2 := *ctx
					c2.InOld = old
					sv := e.eval(s, &c2, cl.Expr)
					mt := sv.T.Underlying().(*types.Map)
					key := typeKey(mt.Key()) + "!" + typeKey(mt.Elem())
					for _, p := range []string{"MD!", "MV!", "ML!"} {
						excs = append(excs, exc{p + key, sv.V.L[0]})
					}
				}
			}()
		case strings.HasPrefix(m, "ghost(") && strings.HasSuffix(m, ")"):
			parts := splitTop(m[6:len(m)-1], ',')
			cl, err := parseClause(parts[1])
			if err != nil {
				continue
			}
			func() {
				defer func() { recover() }()
				c2 := *ctx
				c2.InOld = !strings.Contains(m, "result")
				sv := e.eval(s, &c2, cl.Expr)
				excs = append(excs, exc{"GH!" + strings.TrimSpace(parts[0]), sv.V.L[0]})
			}()
		default:
			i := strings.LastIndex(m, ".")
			if i < 0 {
				continue
			}
			cl, err := parseClause(m[:i])
			if err != nil {
				continue
			}
			func() {
				defer func() { recover() }()
				c2 := *ctx
				c2.InOld = true
				obj := e.eval(s, &c2, cl.Expr)
				excs = append(excs, exc{e.heapNameField(structKey(deref(obj.T)), "."+aliasField(deref(obj.T), m[i+1:]), ""), obj.V.L[0]})
			}()
		}
	}
	return excs
}

// frameFormula: every location of the named heap maps that existed in `alloc` and is not excepted holds
// the value it has in `base`.
func (e *Engine) frameFormula(s *State, names []string, cur, base map[string]string, alloc string, excs []frameExc) []string {
	var goals []string
	for _, name := range names {
		c, okc := cur[name]
		b, okb := base[name]
		if !okc || !okb || c == b || strings.HasPrefix(name, "CC!") || name == "Alloc" {
			continue
		}
		sortS := e.heapSorts[name]
		var objs []string
		whole := false
		for _, x := range excs {
			if strings.HasPrefix(name, x.prefix) {
				if x.obj == "" {
					whole = true
				} else {
					objs = append(objs, x.obj)
				}
			}
		}
		if whole {
			continue
		}
		if !strings.HasPrefix(sortS, "(Array Int ") {
			goals = append(goals, eq(c, b))
			continue
		}
		conds := []string{app("select", alloc, "r!f")}
		for _, ob := range objs {
			conds = append(conds, not(eq("r!f", ob)))
		}
		goals = append(goals, fmt.Sprintf("(forall ((r!f Int)) (=> %s (= (select %s r!f) (select %s r!f))))", and(conds...), c, b))
	}
	return goals
}

// structuralMeasure: the decreases clause is tree(p) / visited(p), decided by the structural-recursion
// analysis on the SSA def-use chains rather than by an SMT measure.
func structuralMeasure(ct *Contract) bool {
	if ct == nil || ct.Decreases == nil {
		return false
	}
	t := strings.TrimSpace(ct.Decreases.Text)
	return strings.HasPrefix(t, "tree(") || strings.HasPrefix(t, "visited(")
}
