package eng

import (
	"fmt"
	"go/types"
	"regexp"
	"sort"
	"strings"

	"golang.org/x/tools/go/ssa"
)

// Rebinding contracts to renamed code. Contracts live outside the source files, so a rename of an
// unexported function, method or struct field would otherwise leave them pointing at nothing. Two
// position-based recoveries, both reported as notes:
//   - struct fields: specs/fields.spec records the field names of every struct of the module in order; a
//     struct that still has the same number of fields, with a recorded name gone and a new name in its
//     place, has had that field renamed;
//   - functions: a contracted unexported function that no longer exists, while exactly one uncontracted
//     function with the same receiver type and the same signature has appeared that is mentioned nowhere
//     in the contracts, has been renamed.

// StructFields lists "pkg.Struct" -> field names for every named struct type of the module's packages.
func StructFields(p *Program) map[string][]string {
	out := map[string][]string{}
	for _, pk := range p.OwnPackages() {
		sc := pk.Types.Scope()
		for _, n := range sc.Names() {
			tn, ok := sc.Lookup(n).(*types.TypeName)
			if !ok {
				continue
			}
			st, ok := tn.Type().Underlying().(*types.Struct)
			if !ok || st.NumFields() == 0 {
				continue
			}
			var fs []string
			for i := 0; i < st.NumFields(); i++ {
				fs = append(fs, st.Field(i).Name())
			}
			out[structKey(tn.Type())] = fs
		}
	}
	return out
}

// ComputeFieldAliases compares recorded field lists with the current ones.
func ComputeFieldAliases(recorded map[string][]string, progs []*Program) (map[string]string, []string) {
	alias := map[string]string{}
	var notes []string
	for _, p := range progs {
		cur := StructFields(p)
		for sk, was := range recorded {
			now, ok := cur[sk]
			if !ok || len(now) != len(was) {
				continue
			}
			nowSet := map[string]bool{}
			for _, n := range now {
				nowSet[n] = true
			}
			wasSet := map[string]bool{}
			for _, n := range was {
				wasSet[n] = true
			}
			for i := range was {
				if was[i] != now[i] && !nowSet[was[i]] && !wasSet[now[i]] {
					alias[sk+"."+was[i]] = now[i]
					notes = append(notes, fmt.Sprintf("field %s.%s is now %s (same position); contracts rebound", sk, was[i], now[i]))
				}
			}
		}
	}
	sort.Strings(notes)
	return alias, notes
}

// ParseFieldsSpec reads "//@ fields pkg.Struct a, b, c" lines.
func ParseFieldsSpec(text string) map[string][]string {
	out := map[string][]string{}
	for _, l := range strings.Split(text, "\n") {
		l = strings.TrimSpace(l)
		if !strings.HasPrefix(l, "//@ fields ") {
			continue
		}
		rest := strings.TrimSpace(strings.TrimPrefix(l, "//@ fields "))
		i := strings.Index(rest, " ")
		if i < 0 {
			continue
		}
		var fs []string
		for _, f := range strings.Split(rest[i+1:], ",") {
			if f = strings.TrimSpace(f); f != "" {
				fs = append(fs, f)
			}
		}
		out[rest[:i]] = fs
	}
	return out
}

func sigString(fn *ssa.Function) string {
	q := func(pk *types.Package) string { return pk.Path() }
	s := types.TypeString(fn.Signature, q)
	if r := fn.Signature.Recv(); r != nil {
		s = types.TypeString(r.Type(), q) + "|" + s
	}
	return s
}

var reIdentChar = regexp.MustCompile(`[A-Za-z0-9_$]`)

// FuncSigs: "key" -> signature (receiver type | parameter and result types) of every function of the
// module's packages, as recorded in specs/funcs.spec when the contracts were written.
func FuncSigs(p *Program) map[string]string {
	out := map[string]string{}
	for k, fn := range p.Funcs {
		if fn.Synthetic != "" || strings.Contains(k, "$") || fn.Pkg == nil || !strings.HasPrefix(fn.Pkg.Pkg.Path(), p.ModPrefix) {
			continue
		}
		out[k] = sigString(fn)
	}
	return out
}

// ParseSigsSpec reads "//@ sig key signature" lines.
func ParseSigsSpec(text string) map[string]string {
	out := map[string]string{}
	for _, l := range strings.Split(text, "\n") {
		l = strings.TrimSpace(l)
		if !strings.HasPrefix(l, "//@ sig ") {
			continue
		}
		rest := strings.TrimPrefix(l, "//@ sig ")
		if i := strings.Index(rest, " "); i > 0 {
			out[rest[:i]] = strings.TrimSpace(rest[i+1:])
		}
	}
	return out
}

// DroppedReceiver: new keys that are functions made from methods (the contract's first positional name,
// the receiver, no longer has a parameter).
var DroppedReceiver = map[string]bool{}

// ComputeFuncRenames: a function named by a contract or a check (keys) that no longer exists is matched
// with a function that did not exist when the contracts were written (not in recorded), has the same
// receiver / package prefix, the same signature as the recorded one and an unexported name. A unique
// match is a rename.
func ComputeFuncRenames(keys []string, recorded map[string]string, progs []*Program) (map[string]string, []string) {
	ren := map[string]string{}
	var notes []string
	for _, p := range progs {
		cur := FuncSigs(p)
		for _, k := range keys {
			if p.Funcs[k] != nil || strings.Contains(k, "$") {
				continue
			}
			want, ok := recorded[k]
			if !ok {
				continue
			}
			i := strings.LastIndex(k, ".")
			prefix, name := k[:i+1], k[i+1:]
			if name == "" || !(name[0] >= 'a' && name[0] <= 'z') {
				continue // only unexported functions are rebound
			}
			var cands []string
			for ck, sg := range cur {
				if _, existed := recorded[ck]; existed || sg != want || !strings.HasPrefix(ck, prefix) || strings.Contains(ck[len(prefix):], ".") {
					continue
				}
				nm := ck[len(prefix):]
				if nm[0] >= 'a' && nm[0] <= 'z' {
					cands = append(cands, ck)
				}
			}
			if len(cands) == 1 {
				ren[k] = cands[0]
				notes = append(notes, fmt.Sprintf("function %s no longer exists; %s is new, has the same receiver and signature, and takes its contract (rename)", k, cands[0]))
				continue
			}
			// a method whose receiver was dropped: "pkg.T.m" with recorded signature "recv|func(...)" became a
			// package-level function "pkg.f" with the same parameters and results
			if bar := strings.Index(want, "|"); bar > 0 && len(cands) == 0 && strings.Count(k, ".") == 2 {
				pkgPrefix := k[:strings.Index(k, ".")+1]
				for ck, sg := range cur {
					if _, existed := recorded[ck]; existed || sg != want[bar+1:] || !strings.HasPrefix(ck, pkgPrefix) || strings.Contains(ck[len(pkgPrefix):], ".") {
						continue
					}
					if nm := ck[len(pkgPrefix):]; nm[0] >= 'a' && nm[0] <= 'z' {
						cands = append(cands, ck)
					}
				}
				if len(cands) == 1 {
					ren[k] = cands[0]
					DroppedReceiver[cands[0]] = true
					notes = append(notes, fmt.Sprintf("method %s no longer exists; the new function %s has its parameters and results without the receiver and takes its contract", k, cands[0]))
				}
			}
		}
	}
	sort.Strings(notes)
	return ren, notes
}

func (p *Program) hasPkgShort(short string) bool {
	for _, pk := range p.OwnPackages() {
		if PkgShort(pk.PkgPath) == short {
			return true
		}
	}
	return false
}

// ReplaceKey replaces every occurrence of the function key old (not followed by an identifier
// character) by new in text.
func ReplaceKey(text, old, new string) string {
	var b strings.Builder
	for {
		i := strings.Index(text, old)
		if i < 0 {
			b.WriteString(text)
			break
		}
		end := i + len(old)
		if end < len(text) && reIdentChar.MatchString(text[end:end+1]) {
			b.WriteString(text[:end])
			text = text[end:]
			continue
		}
		if i > 0 && (reIdentChar.MatchString(text[i-1:i]) || text[i-1] == '.') {
			b.WriteString(text[:end])
			text = text[end:]
			continue
		}
		b.WriteString(text[:i])
		b.WriteString(new)
		text = text[end:]
	}
	return b.String()
}
