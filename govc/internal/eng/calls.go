package eng

import (
	"os"
	"fmt"
	"go/ast"
	"go/types"
	"sort"
	"strings"

	"golang.org/x/tools/go/ssa"
)

func (e *Engine) captureCall(s *State, c *ssa.CallCommon, in ssa.Instruction) deferred {
	d := deferred{call: c, instr: in}
	d.fn = e.val(s, c.Value)
	for _, a := range c.Args {
		d.args = append(d.args, e.val(s, a))
		d.argTypes = append(d.argTypes, a.Type())
	}
	e.curArgTypes = d.argTypes
	if c.IsInvoke() {
		e.curArgTypes = append([]types.Type{c.Value.Type()}, d.argTypes...)
	}
	return d
}

type callOut struct {
	s *State
	r *Val
}

func (e *Engine) execCall(s *State, x *ssa.Call) []*State {
	d := e.captureCall(s, x.Common(), x)
	outs := e.doCall(s, d, x)
	var states []*State
	for _, o := range outs {
		if o.r == nil {
			o.r = &Val{}
		}
		o.s.top().Vals[x] = o.r
		states = append(states, o.s)
	}
	if len(states) == 1 && states[0] == s {
		return nil
	}
	if len(states) == 0 {
		s.Dead = true
		return nil
	}
	return states
}

func (e *Engine) execRunDefers(s *State, x *ssa.RunDefers) []*State {
	fr := s.top()
	states := []*State{s}
	for i := len(fr.Defers) - 1; i >= 0; i-- {
		d := fr.Defers[i]
		var next []*State
		for _, st := range states {
			for _, o := range e.doCall(st, d, x) {
				next = append(next, o.s)
			}
		}
		states = next
	}
	for _, st := range states {
		st.top().Defers = nil
	}
	if len(states) == 1 && states[0] == s {
		return nil
	}
	if len(states) == 0 {
		s.Dead = true
		return nil
	}
	return states
}

func calleeKeyExternal(fn *ssa.Function) string {
	pk := ""
	if fn.Pkg != nil {
		pk = PkgShort(fn.Pkg.Pkg.Path()) + "."
	} else if fn.Signature.Recv() != nil {
		// wrapper/bound method of an imported type
		t := fn.Signature.Recv().Type()
		if pt, ok := t.(*types.Pointer); ok {
			t = pt.Elem()
		}
		if nt, ok := t.(*types.Named); ok && nt.Obj().Pkg() != nil {
			pk = PkgShort(nt.Obj().Pkg().Path()) + "."
		}
	}
	if recv := fn.Signature.Recv(); recv != nil {
		t := recv.Type()
		if pt, ok := t.(*types.Pointer); ok {
			t = pt.Elem()
		}
		if nt, ok := t.(*types.Named); ok {
			return pk + nt.Obj().Name() + "." + fn.Name()
		}
	}
	return pk + fn.Name()
}

// doCall performs a call on state s; it may fork (inlining) and may end the path.
func (e *Engine) doCall(s *State, d deferred, in ssa.Instruction) []callOut {
	c := d.call
	e.curArgTypes = d.argTypes
	if c.IsInvoke() {
		e.curArgTypes = append([]types.Type{c.Value.Type()}, d.argTypes...)
	}
	sig := c.Signature()
	var resT types.Type = sig.Results()
	if sig.Results().Len() == 1 {
		resT = sig.Results().At(0).Type()
	}
	if c.IsInvoke() {
		recv := d.fn
		if !recv.NN && e.Cfg.NilDeref && len(recv.L) > 0 {
			e.assert(s, e.oblName(s, in, "nilderef"), "nilderef", in.Pos(), "method call on nil interface", not(eq(recv.L[0], "0")))
		}
		if len(recv.L) > 0 {
			s.assume(not(eq(recv.L[0], "0"))) // execution continues past an interface call only if the value was non-nil
		}
		key := ifaceMethodKey(c)
		if ct := e.C.Funcs[key]; ct != nil {
			args := append([]*Val{recv}, d.args...)
			if target, ok := ct.Flags["same_as"]; ok {
				// the interface method has exactly one implementation in the module (checked): use its contract
				tfn := e.P.Funcs[target]
				tct := e.C.Funcs[target]
				if tfn == nil || tct == nil {
					e.unsupportedf("same_as target %s of %s has no function/contract", target, key)
				}
				e.checkSoleImpl(c, tfn, key, in)
				// the implementation's contract speaks about the concrete receiver, not the interface value
				if recv.Under != nil {
					args[0] = recv.Under
				} else if len(recv.L) == 1 {
					args[0] = &Val{L: []string{app("iref", recv.L[0])}, NN: true}
					s.assume(not(eq(app("iref", recv.L[0]), "0"))) // receivers are trusted non-nil (listed assumption)
				}
				return []callOut{{s, e.applyContract(s, tct, tfn, tfn.Signature, nil, args, in, target)}}
			}
			return []callOut{{s, e.applyContract(s, ct, nil, c.Method.Type().(*types.Signature), c.Value.Type(), args, in, key)}}
		}
		if sp, ok := extInvoke[key]; ok {
			return []callOut{{s, sp(e, s, c, append([]*Val{recv}, d.args...), in)}}
		}
		return []callOut{{s, e.unknownCall(s, key, resT, append([]*Val{recv}, d.args...), in)}}
	}
	if b, ok := c.Value.(*ssa.Builtin); ok {
		return []callOut{{s, e.builtin(s, b, c, d.args, in)}}
	}
	var fn *ssa.Function
	var binds []*Val
	if f := c.StaticCallee(); f != nil {
		fn = f
		if d.fn != nil {
			binds = d.fn.Bind
		}
	} else if d.fn != nil && d.fn.Fn != nil {
		fn, binds = d.fn.Fn, d.fn.Bind
	}
	if fn == nil {
		// call through a package-level function variable: contract keyed by the variable
		if u, ok := c.Value.(*ssa.UnOp); ok {
			if g, ok := u.X.(*ssa.Global); ok && g.Pkg != nil {
				key := PkgShort(g.Pkg.Pkg.Path()) + "." + g.Name()
				if ct := e.C.Funcs[key]; ct != nil {
					return []callOut{{s, e.applyContract(s, ct, nil, sig, nil, append([]*Val{d.fn}, d.args...), in, key)}}
				}
			}
		}
		// call of a value of a named function type that has a contract ("functype")
		if nt, ok := c.Value.Type().(*types.Named); ok {
			key := structKey(nt)
			if ct := e.C.Funcs[key]; ct != nil && ct.Flag("functype") {
				return []callOut{{s, e.applyContract(s, ct, nil, sig, nt, append([]*Val{d.fn}, d.args...), in, key)}}
			}
		}
		return []callOut{{s, e.unknownCall(s, "func value "+c.Value.Name(), resT, d.args, in)}}
	}
	if strings.HasPrefix(fn.Synthetic, "bound method wrapper") && len(fn.Blocks) > 0 && len(e.inlineStack) < 4 {
		// a method value (x.M): the wrapper just calls the method on its captured receiver
		return e.inline(s, fn, d.args, binds, in, "bound:"+fn.Name())
	}
	own := fn.Pkg != nil && strings.HasPrefix(fn.Pkg.Pkg.Path(), e.P.ModPrefix) || (fn.Parent() != nil)
	var key string
	if own {
		key = e.P.FuncKey(fn)
	} else {
		key = calleeKeyExternal(fn)
	}
	// receiver nil-check for method calls on pointers produced locally
	if fn.Signature.Recv() != nil && len(d.args) > 0 && own {
		if _, isPtr := fn.Signature.Recv().Type().Underlying().(*types.Pointer); isPtr {
			e.nilCheck(s, d.args[0], fn.Signature.Recv().Type(), in)
		}
	}
	if sp, ok := extStatic[key]; ok {
		return []callOut{{s, sp(e, s, c, d.args, in)}}
	}
	ct := e.C.Funcs[key]
	if ct == nil && !own && isPureExternal(key) {
		e.note("external " + key + ": treated as pure (no heap effect, unconstrained result, panic-free)")
		r := e.havocVal(s, resT, "pure")
		e.assumeAllocatedVal(s, resT, r)
		return []callOut{{s, r}}
	}
	if ct != nil && !ct.Flag("inline") {
		var rt types.Type
		return []callOut{{s, e.applyContract(s, ct, fn, fn.Signature, rt, d.args, in, key)}}
	}
	if own && len(fn.Blocks) > 0 && (ct != nil && ct.Flag("inline") || e.canInline(fn) || e.isPrivateHelper(fn) || ct == nil && e.smallHelper(fn)) {
		return e.inline(s, fn, d.args, binds, in, key)
	}
	return []callOut{{s, e.unknownCall(s, key, resT, d.args, in)}}
}

func ifaceMethodKey(c *ssa.CallCommon) string {
	t := c.Value.Type()
	if rs := c.Method.Type().(*types.Signature).Recv(); rs != nil {
		if _, ok := rs.Type().(*types.Named); ok {
			t = rs.Type()
		}
	}
	return structKey(t) + "." + c.Method.Name()
}

func (e *Engine) canInline(fn *ssa.Function) bool {
	if len(e.inlineStack) >= e.Cfg.InlineDepth {
		return false
	}
	k := e.P.FuncKey(fn)
	if k == e.FnKey {
		return false
	}
	for _, x := range e.inlineStack {
		if x == k {
			return false
		}
	}
	n := 0
	for _, b := range fn.Blocks {
		n += len(b.Instrs)
	}
	return n <= 400
}

func (e *Engine) inline(s *State, fn *ssa.Function, args, binds []*Val, in ssa.Instruction, key string) []callOut {
	e.inlineStack = append(e.inlineStack, key)
	defer func() { e.inlineStack = e.inlineStack[:len(e.inlineStack)-1] }()
	e.note("callee " + key + " inlined (verified as part of the caller)")
	ord := ""
	if m, ok := e.ord[in]; ok {
		ord = fmt.Sprintf("@%d", m["callee-pre"])
	}
	prefix := s.top().Prefix
	if prefix != "" {
		prefix += "/"
	}
	prefix += "inl:" + key[strings.Index(key, ".")+1:] + ord
	e.snapEntry(s, fn, args, len(s.Frames))
	e.event(s, Event{Kind: "call", What: key, Args: args, ArgTypes: e.argTypesFor(args), Pos: e.P.Pos(in.Pos()), Instr: in, Extra: map[string]string{"inlined": "1"}})
	evIdx := len(s.Trace) - 1
	outs := e.runFunc(s, fn, args, binds, prefix)
	var res []callOut
	for _, o := range outs {
		if evIdx < len(o.s.Trace) && o.s.Trace[evIdx].Instr == in {
			// results of the inlined call, for callret()
			tr := append([]Event{}, o.s.Trace...)
			tr[evIdx].Rets = o.results
			for i := 0; i < fn.Signature.Results().Len(); i++ {
				tr[evIdx].RetTypes = append(tr[evIdx].RetTypes, fn.Signature.Results().At(i).Type())
			}
			o.s.Trace = tr
		}
		var r *Val
		switch len(o.results) {
		case 0:
			r = &Val{}
		case 1:
			r = o.results[0]
		default:
			r = &Val{Tup: o.results}
			for _, x := range o.results {
				r.L = append(r.L, x.L...)
			}
		}
		res = append(res, callOut{o.s, r})
	}
	return res
}

func (e *Engine) snapEntry(s *State, fn *ssa.Function, args []*Val, depth int) {
	ent := &entrySnap{Params: map[string]*Val{}, PTypes: map[string]types.Type{}, Heap: map[string]string{}}
	for i, p := range fn.Params {
		if i < len(args) {
			ent.Params[p.Name()] = args[i]
			ent.PTypes[p.Name()] = p.Type()
		}
	}
	for k, v := range s.Heap {
		ent.Heap[k] = v
	}
	if s.Entry == nil {
		s.Entry = map[int]*entrySnap{}
	} else {
		cp := map[int]*entrySnap{}
		for k, v := range s.Entry {
			cp[k] = v
		}
		s.Entry = cp
	}
	s.Entry[depth] = ent
}

// unknownCall: a callee without contract, spec or body. Results are unconstrained, the whole heap is
// havocked, and the callee is assumed not to panic. Each such callee is listed in the evidence.
func (e *Engine) unknownCall(s *State, key string, resT types.Type, args []*Val, in ssa.Instruction) *Val {
	if callee := e.P.Funcs[key]; callee != nil && e.P.SameSCC(e.Fn, callee) {
		e.structural(e.oblName(s, in, "callee-pre")+"/rec-decreases", "rec-decreases", in.Pos(), "recursive call to "+key+" decreases the measure", false, "recursive call to a function without contract/decreases clause")
	}
	e.note("uncontracted callee " + key + ": results unconstrained, heap havocked, assumed panic-free")
	e.event(s, Event{Kind: "call", What: key, Args: args, ArgTypes: e.argTypesFor(args), Pos: e.P.Pos(in.Pos()), Instr: in, Extra: map[string]string{"unknown": "1"}})
	for _, a := range args {
		e.escape(s, nil, a)
	}
	e.havocAll(s)
	r := e.havocVal(s, resT, "ret")
	e.assumeAllocatedVal(s, resT, r)
	if r.Tup != nil {
		s.Trace[len(s.Trace)-1].Rets = r.Tup
	} else {
		s.Trace[len(s.Trace)-1].Rets = []*Val{r}
	}
	return r
}

// applyContract replaces a call by the callee's contract: assert requires, havoc modifies, assume ensures.
func (e *Engine) applyContract(s *State, ct *Contract, fn *ssa.Function, sig *types.Signature, recvT types.Type, args []*Val, in ssa.Instruction, key string) *Val {
	e.note("contract used at a call site: " + ct.Key)
	ctx := &SpecCtx{Fn: fn, Params: map[string]*Val{}, PTypes: map[string]types.Type{}, Bound: map[string]*SV{}, OldEpoch: true, AtCallSite: true}
	if ctx.Fn == nil {
		ctx.Fn = s.top().Fn
	}
	idx := 0
	if fn != nil {
		for i, p := range fn.Params {
			if i < len(args) {
				ctx.Params[p.Name()] = args[i]
				ctx.PTypes[p.Name()] = p.Type()
			}
		}
	} else {
		// interface method: receiver is "self", then declared parameter names
		ctx.NoAlias = true
		ctx.Params["self"] = args[0]
		ctx.PTypes["self"] = recvT
		idx = 1
		for i := 0; i < sig.Params().Len(); i++ {
			n := sig.Params().At(i).Name()
			if n == "" || n == "_" {
				n = fmt.Sprintf("arg%d", i)
			}
			if idx+i < len(args) {
				ctx.Params[n] = args[idx+i]
				ctx.PTypes[n] = sig.Params().At(i).Type()
				ctx.Params[fmt.Sprintf("arg%d", i)] = args[idx+i]
				ctx.PTypes[fmt.Sprintf("arg%d", i)] = sig.Params().At(i).Type()
			}
		}
	}
	ord := 0
	if m, ok := e.ord[in]; ok {
		ord = m["callee-pre"]
	}
	base := e.FnKey
	if p := s.top().Prefix; p != "" {
		base += "/" + p
	}
	// object invariant of the receiver's type, when the caller is outside the type
	if fn != nil && fn.Signature.Recv() != nil && len(args) > 0 {
		rk := structKey(deref(fn.Signature.Recv().Type()))
		if inv, ok := e.C.TypeInvs[rk]; ok && !e.insideType(rk) {
			c2 := *ctx
			c2.Self = e.svOf(args[0], fn.Signature.Recv().Type())
			s.assume(e.evalBool(s, &c2, inv.Expr))
			e.note("object invariant of " + rk + " assumed for the receiver at calls from outside the type (visible-state semantics; encapsulation checked by the typeinv-encapsulation analysis)")
		}
	}
	// recursion: the callee's measure at the call is below the caller's measure at entry
	if fn != nil && s.top().Depth == 0 && e.P.SameSCC(e.Fn, fn) && !structuralMeasure(e.Contract) {
		name := fmt.Sprintf("%s/rec-decreases#%d", base, ord)
		switch {
		case ct.Decreases == nil:
			e.structural(name, "rec-decreases", in.Pos(), "recursive call to "+key+" decreases the measure", false, "callee on the same call-graph cycle has no decreases clause")
		case e.entryMeasure == "":
			e.structural(name, "rec-decreases", in.Pos(), "recursive call to "+key+" decreases the measure", false, "caller has no decreases clause")
		default:
			m := e.evalTerm(s, ctx, ct.Decreases.Expr)
			e.assert(s, name, "rec-decreases", in.Pos(), "recursive call to "+key+": measure "+ct.Decreases.Text+" decreases and is bounded below", and(app(">=", e.entryMeasure, "0"), app("<", m, e.entryMeasure)))
		}
	}
	for k, rq := range ct.Requires {
		t := e.evalBool(s, ctx, rq.Expr)
		e.assert(s, fmt.Sprintf("%s/callee-pre#%d.%d", base, ord, k), "callee-pre", in.Pos(), "precondition of "+key+": "+rq.Text, t)
	}
	// snapshot for old()
	old := map[string]string{}
	for k, v := range s.Heap {
		old[k] = v
	}
	ctx.OldHeap = old
	ctx.SnapEpoch = s.Epoch
	ctx.SnapPending = s.pendingHavoc[:len(s.pendingHavoc):len(s.pendingHavoc)]
	e.event(s, Event{Kind: "call", What: key, Args: args, ArgTypes: e.argTypesFor(args), Pos: e.P.Pos(in.Pos()), Instr: in, Extra: map[string]string{"contract": "1", "blocking": ct.Flags["blocking"], "trusted": map[bool]string{true: "1", false: ""}[ct.Flag("trusted") || fn == nil || fn.Pkg == nil || !strings.HasPrefix(fn.Pkg.Pkg.Path(), e.P.ModPrefix)]}})
	recvFreshAtCall := len(args) > 0 && len(args[0].L) == 1 && (s.FreshRefs[args[0].L[0]] || s.Private[args[0].L[0]])
	freshBefore := make(map[string]bool, len(s.FreshRefs))
	for k := range s.FreshRefs {
		freshBefore[k] = true
	}
	if !ct.Flag("noescape") {
		for _, a := range args {
			e.escape(s, nil, a)
		}
	}
	res := sig.Results()
	var rvals []*Val
	for i := 0; i < res.Len(); i++ {
		ctx.RTypes = append(ctx.RTypes, res.At(i).Type())
		ctx.RNames = append(ctx.RNames, res.At(i).Name())
	}
	// modifies clauses that do not mention results are applied first (allocation must precede result creation)
	ctx.Results = nil
	e.applyModifies(s, ct, ctx, false)
	for i := 0; i < res.Len(); i++ {
		v := e.havocVal(s, res.At(i).Type(), "r_"+sanitizeName(res.At(i).Name()))
		e.assumeAllocatedVal(s, res.At(i).Type(), v)
		rvals = append(rvals, v)
	}
	ctx.Results = rvals
	if ctx.Results == nil {
		ctx.Results = []*Val{}
	}
	for i := len(s.Trace) - 1; i >= 0; i-- {
		if s.Trace[i].Instr == in && s.Trace[i].Kind == "call" {
			s.Trace[i].Rets = rvals
			s.Trace[i].RetTypes = ctx.RTypes
			break
		}
	}
	e.applyModifies(s, ct, ctx, true)
	for _, en := range ct.Ensures {
		if t, ok := e.tryEvalBool(s, ctx, en.Expr); ok {
			s.assume(t)
		}
	}
	exclOK := recvFreshAtCall
	if pn, ok := ct.Flags["exclusive_of"]; ok && fn != nil {
		// the exclusively-owned object is a named parameter, not the receiver
		exclOK = false
		for i, p := range fn.Params {
			if p.Name() == strings.TrimSpace(pn) && i < len(args) {
				a := args[i]
				if a.Under != nil {
					a = a.Under
				}
				exclOK = len(a.L) == 1 && (freshBefore[a.L[0]] || s.Private[a.L[0]])
			}
		}
	}
	if e.Exclusive {
		exclOK = true // the whole pass assumes sequential execution
	}
	if len(ct.EnsuresExcl) > 0 && fn != nil && len(args) > 0 && exclOK {
		// the caller allocated the receiver and has not shared it: nobody can interfere
		for _, en := range ct.EnsuresExcl {
			if t, ok := e.tryEvalBool(s, ctx, en.Expr); ok {
				s.assume(t)
			}
		}
		e.note("exclusive-ownership postconditions of " + key + " used for a receiver allocated in the caller and not yet escaped")
	}
	switch len(rvals) {
	case 0:
		return &Val{}
	case 1:
		return rvals[0]
	}
	r := &Val{Tup: rvals}
	for _, x := range rvals {
		r.L = append(r.L, x.L...)
	}
	return r
}

func (e *Engine) applyModifies(s *State, ct *Contract, ctx *SpecCtx, resultPhase bool) {
	for _, m := range ct.Modifies {
		if strings.Contains(m, "result") != resultPhase {
			continue
		}
		switch {
		case m == "*":
			e.havocAll(s)
		case m == "alloc":
			old := e.heapGet(s, "Alloc", "(Array Int Bool)")
			e.heapHavoc(s, "Alloc")
			s.add(fmt.Sprintf("(assert (forall ((r!q Int)) (=> (select %s r!q) (select %s r!q))))", old, s.Heap["Alloc"]))
		case strings.HasPrefix(m, "heap(") && strings.HasSuffix(m, ")"):
			pre := m[5 : len(m)-1]
			var names []string
			for n := range e.heapSorts {
				if strings.HasPrefix(n, pre) {
					names = append(names, n)
				}
			}
			sort.Strings(names)
			for _, n := range names {
				e.heapHavoc(s, n)
			}
			s.pendingHavoc = append(s.pendingHavoc[:len(s.pendingHavoc):len(s.pendingHavoc)], pre)
		case strings.HasPrefix(m, "elems(") && strings.HasSuffix(m, ")"):
			cl, err := parseClause(m[6 : len(m)-1])
			if err != nil {
				e.unsupportedf("modifies %s: %v", m, err)
			}
			sv := e.eval(s, ctx, cl.Expr)
			sl := sv.T.Underlying().(*types.Slice)
			for _, lf := range e.leaves(sl.Elem()) {
				name, sortS := "E!"+typeKey(sl.Elem())+lf.Path, "(Array Int (Array Int "+lf.Sort+"))"
				h := e.heapGet(s, name, sortS)
				arr := e.declare(s, "modarr", "(Array Int "+lf.Sort+")")
				e.heapSet(s, name, sortS, app("store", h, sv.V.L[0], arr))
			}
		case strings.HasPrefix(m, "mapof(") && strings.HasSuffix(m, ")"):
			cl, err := parseClause(m[6 : len(m)-1])
			if err != nil {
				e.unsupportedf("modifies %s: %v", m, err)
			}
			sv := e.eval(s, ctx, cl.Expr)
			mt := sv.T.Underlying().(*types.Map)
			e.havocMapAt(s, mt, sv.V.L[0])
		case strings.HasPrefix(m, "ghost(") && strings.HasSuffix(m, ")"):
			parts := splitTop(m[6:len(m)-1], ',')
			gname := strings.TrimSpace(parts[0])
			cl, err := parseClause(parts[1])
			if err != nil {
				e.unsupportedf("modifies %s: %v", m, err)
			}
			sv := e.eval(s, ctx, cl.Expr)
			sortS := "(Array Int " + ghostHeaps[gname] + ")"
			h := e.heapGet(s, "GH!"+gname, sortS)
			nv := e.declare(s, "gh", ghostHeaps[gname])
			e.heapSet(s, "GH!"+gname, sortS, app("store", h, sv.V.L[0], nv))
		default:
			// x.f / x.y.f: field f of the object denoted by the expression before the last dot
			i := strings.LastIndex(m, ".")
			if i < 0 {
				e.unsupportedf("modifies clause %q", m)
			}
			cl, err := parseClause(m[:i])
			if err != nil {
				e.unsupportedf("modifies %s: %v", m, err)
			}
			obj := e.eval(s, ctx, cl.Expr)
			st := deref(obj.T)
			path := "." + aliasField(st, m[i+1:])
			ft := fieldTypeByPath(st, path)
			if ft == nil {
				e.unsupportedf("modifies %s: no such field", m)
			}
			for _, lf := range e.leaves(ft) {
				name, sortS := e.heapNameField(structKey(st), path, lf.Path), "(Array Int "+lf.Sort+")"
				h := e.heapGet(s, name, sortS)
				nv := e.declare(s, "modf", lf.Sort)
				e.heapSet(s, name, sortS, app("store", h, obj.V.L[0], nv))
				tv := &Val{L: []string{nv}}
				_ = tv
			}
			// type invariants of the new field value
			nv := e.load(s, &Addr{K: AField, Base: obj.V.L[0], SKey: structKey(st), Path: path, T: ft}, nil)
			_ = nv
		}
	}
}

func fieldTypeByPath(t types.Type, path string) types.Type {
	cur := t
	for _, name := range strings.Split(strings.TrimPrefix(path, "."), ".") {
		st, ok := cur.Underlying().(*types.Struct)
		if !ok {
			return nil
		}
		name = aliasField(cur, name)
		found := false
		for i := 0; i < st.NumFields(); i++ {
			if st.Field(i).Name() == name {
				cur = st.Field(i).Type()
				found = true
				break
			}
		}
		if !found {
			return nil
		}
	}
	return cur
}

func (e *Engine) havocMapAt(s *State, mt *types.Map, m string) {
	md, ml, ks := e.mapNames(mt)
	ds := "(Array Int (Array " + ks + " Bool))"
	h := e.heapGet(s, md, ds)
	e.heapSet(s, md, ds, app("store", h, m, e.declare(s, "mdom", "(Array "+ks+" Bool)")))
	for _, lf := range e.leaves(mt.Elem()) {
		name, sortS := e.mapValName(mt, lf.Path), "(Array Int (Array "+ks+" "+lf.Sort+"))"
		hv := e.heapGet(s, name, sortS)
		e.heapSet(s, name, sortS, app("store", hv, m, e.declare(s, "mvals", "(Array "+ks+" "+lf.Sort+")")))
	}
	hl := e.heapGet(s, ml, "(Array Int Int)")
	nl := e.declare(s, "mlen", "Int")
	s.assume(app(">=", nl, "0"))
	e.heapSet(s, ml, "(Array Int Int)", app("store", hl, m, nl))
}

// callMods is the static over-approximation of what a call inside a loop may modify.
func (e *Engine) callMods(c *ssa.CallCommon, m *mods) {
	e.callModsDepth(c, m, map[*ssa.Alloc]bool{}, 0)
}

func (e *Engine) callModsDepth(c *ssa.CallCommon, m *mods, seen map[*ssa.Alloc]bool, depth int) {
	if b, ok := c.Value.(*ssa.Builtin); ok {
		switch b.Name() {
		case "append", "copy":
			if len(c.Args) > 0 {
				if sl, ok := c.Args[0].Type().Underlying().(*types.Slice); ok {
					m.heap = append(m.heap, "E!"+typeKey(sl.Elem()), "Alloc")
				}
			}
		case "delete", "clear":
			m.heap = append(m.heap, "MD!", "MV!", "ML!")
		case "close":
			m.heap = append(m.heap, "CX!")
		}
		return
	}
	var key string
	if c.IsInvoke() {
		key = ifaceMethodKey(c)
	} else if f := c.StaticCallee(); f != nil {
		if f.Pkg != nil && strings.HasPrefix(f.Pkg.Pkg.Path(), e.P.ModPrefix) {
			key = e.P.FuncKey(f)
		} else {
			key = calleeKeyExternal(f)
		}
	}
	if key == "" {
		// call of a value of a named function type with a functype contract
		if nt, ok := c.Value.Type().(*types.Named); ok {
			key = structKey(nt)
		}
	}
	if fx, ok := extEffects[key]; ok {
		m.heap = append(m.heap, fx...)
		return
	}
	if ct := e.C.Funcs[key]; ct != nil && !ct.Flag("inline") {
		for _, md := range ct.Modifies {
			switch {
			case md == "*":
				m.all = true
			case md == "alloc":
				m.heap = append(m.heap, "Alloc")
			case strings.HasPrefix(md, "heap("):
				m.heap = append(m.heap, md[5:len(md)-1])
			case strings.HasPrefix(md, "elems("):
				m.heap = append(m.heap, "E!")
			case strings.HasPrefix(md, "mapof("):
				m.heap = append(m.heap, "MD!", "MV!", "ML!")
			case strings.HasPrefix(md, "ghost("):
				m.heap = append(m.heap, "GH!"+strings.TrimSpace(splitTop(md[6:len(md)-1], ',')[0]))
			default:
				m.heap = append(m.heap, "F!")
			}
		}
		return
	}
	// an uncontracted small helper of the module is inlined at the call: what its body may modify
	if f := c.StaticCallee(); f != nil && e.C.Funcs[key] == nil && depth < 4 && !e.Cfg.NoAutoInline && f.Pkg != nil && strings.HasPrefix(f.Pkg.Pkg.Path(), e.P.ModPrefix) && SmallHelperStatic(e.P, f) {
		for _, b := range f.Blocks {
			for _, in := range b.Instrs {
				if _, ok := in.(*ssa.RunDefers); ok {
					continue // the helper's own deferred calls are accounted for at their defer instructions
				}
				e.instrMods(in, seen, m, depth+1)
			}
		}
		return
	}
	if os.Getenv("GOVC_DEBUG_HAVOC") != "" {
		fmt.Fprintf(os.Stderr, "callMods: all because of %q (%v) depth %d\n", key, c, depth)
	}
	m.all = true
}

// ---- builtins -----------------------------------------------------------------------------

func (e *Engine) builtin(s *State, b *ssa.Builtin, c *ssa.CallCommon, args []*Val, in ssa.Instruction) *Val {
	switch b.Name() {
	case "len":
		switch u := c.Args[0].Type().Underlying().(type) {
		case *types.Slice:
			return &Val{L: []string{args[0].L[2]}}
		case *types.Basic:
			return &Val{L: []string{e.define(s, "slen", "Int", app("slen", args[0].L[0]))}}
		case *types.Map:
			e.checkGuardContents(s, args[0], in, false)
			return &Val{L: []string{e.mapLen(s, u, args[0].L[0])}}
		case *types.Array:
			return &Val{L: []string{num(u.Len())}}
		case *types.Pointer:
			return &Val{L: []string{num(u.Elem().Underlying().(*types.Array).Len())}}
		case *types.Chan:
			cl := e.heapGet(s, "CL!", "(Array Int Int)")
			return &Val{L: []string{app("select", cl, args[0].L[0])}}
		}
	case "cap":
		switch u := c.Args[0].Type().Underlying().(type) {
		case *types.Slice:
			return &Val{L: []string{args[0].L[3]}}
		case *types.Array:
			return &Val{L: []string{num(u.Len())}}
		case *types.Chan:
			cc := e.heapGet(s, "CC!", "(Array Int Int)")
			return &Val{L: []string{app("select", cc, args[0].L[0])}}
		}
	case "append":
		return e.builtinAppend(s, c, args)
	case "copy":
		return e.builtinCopy(s, c, args)
	case "delete":
		mt := c.Args[0].Type().Underlying().(*types.Map)
		e.checkGuardContents(s, args[0], in, true)
		e.mapDelete(s, mt, args[0].L[0], args[1])
		return &Val{}
	case "close":
		ch := args[0].L[0]
		cx := e.heapGet(s, "CX!", "(Array Int Bool)")
		name := e.oblName(s, in, "close-closed")
		if s.FreshRefs[ch] || e.Contract != nil && e.Contract.Flag("check-close") {
			e.assert(s, name, "close-closed", in.Pos(), "close of closed or nil channel", and(not(eq(ch, "0")), not(app("select", cx, ch))))
		}
		e.heapSet(s, "CX!", "(Array Int Bool)", app("store", cx, ch, "true"))
		clName := c.Args[0].Name()
		if args[0].Src != "" {
			clName = args[0].Src
		}
		e.event(s, Event{Kind: "close", What: clName, Args: args, Pos: e.P.Pos(in.Pos()), Instr: in})
		return &Val{}
	case "print", "println":
		return &Val{}
	case "recover":
		return &Val{L: []string{"0"}}
	case "min", "max":
		op := "imin"
		if b.Name() == "max" {
			op = "imax"
		}
		r := args[0].L[0]
		for _, a := range args[1:] {
			r = app(op, r, a.L[0])
		}
		return &Val{L: []string{r}}
	case "ssa:wrapnilchk":
		return args[0]
	case "ssa:deferstack":
		return &Val{L: []string{"0"}, NN: true}
	}
	e.unsupportedf("builtin %s", b.Name())
	return nil
}

func (e *Engine) builtinAppend(s *State, c *ssa.CallCommon, args []*Val) *Val {
	sl := c.Args[0].Type().Underlying().(*types.Slice)
	a := args[0]
	var n string
	srcStr := false
	if isStringT(c.Args[1].Type()) {
		n = app("slen", args[1].L[0])
		srcStr = true
	} else {
		n = args[1].L[2]
	}
	nb := e.declare(s, "ap_b", "Int")
	no := e.declare(s, "ap_o", "Int")
	nc := e.declare(s, "ap_c", "Int")
	nl := e.define(s, "ap_l", "Int", app("+", a.L[2], n))
	al := e.heapGet(s, "Alloc", "(Array Int Bool)")
	inplace := app("<=", nl, a.L[3])
	s.assume(app("ite", inplace, and(eq(nb, a.L[0]), eq(no, a.L[1]), eq(nc, a.L[3])),
		and(app(">", nb, "0"), not(app("select", al, nb)), eq(no, "0"), app(">=", nc, nl))))
	s.assume(implies(and(eq(a.L[0], "0"), eq(n, "0")), eq(nb, "0")))
	s.assume(and(app(">=", nb, "0"), app("<=", nc, "4611686018427387904")))
	e.heapSet(s, "Alloc", "(Array Int Bool)", app("store", al, nb, "true"))
	for _, lf := range e.leaves(sl.Elem()) {
		name, sortS := "E!"+typeKey(sl.Elem())+lf.Path, "(Array Int (Array Int "+lf.Sort+"))"
		h := e.heapGet(s, name, sortS)
		arr := e.declare(s, "ap_arr", "(Array Int "+lf.Sort+")")
		if e.Cfg.StrBytes && lf.Sort == "Int" {
			oldArr := app("select", h, a.L[0])
			s.add(fmt.Sprintf("(assert (forall ((k!q Int)) (=> (and (<= 0 k!q) (< k!q %s)) (= (select %s (+ %s k!q)) (select %s (+ %s k!q))))))", a.L[2], arr, no, oldArr, a.L[1]))
			if srcStr {
				s.add(fmt.Sprintf("(assert (forall ((k!q Int)) (=> (and (<= 0 k!q) (< k!q %s)) (= (select %s (+ %s %s k!q)) (sat %s k!q)))))", n, arr, no, a.L[2], args[1].L[0]))
			} else {
				srcArr := app("select", h, args[1].L[0])
				s.add(fmt.Sprintf("(assert (forall ((k!q Int)) (=> (and (<= 0 k!q) (< k!q %s)) (= (select %s (+ %s %s k!q)) (select %s (+ %s k!q))))))", n, arr, no, a.L[2], srcArr, args[1].L[1]))
			}
		}
		e.heapSet(s, name, sortS, app("store", h, nb, arr))
	}
	e.escape(s, nil, args[1])
	return &Val{L: []string{nb, no, nl, nc}}
}

func (e *Engine) builtinCopy(s *State, c *ssa.CallCommon, args []*Val) *Val {
	sl := c.Args[0].Type().Underlying().(*types.Slice)
	d := args[0]
	var n string
	srcStr := isStringT(c.Args[1].Type())
	if srcStr {
		n = app("imin", d.L[2], app("slen", args[1].L[0]))
	} else {
		n = app("imin", d.L[2], args[1].L[2])
	}
	nn := e.define(s, "cp_n", "Int", n)
	for _, lf := range e.leaves(sl.Elem()) {
		name, sortS := "E!"+typeKey(sl.Elem())+lf.Path, "(Array Int (Array Int "+lf.Sort+"))"
		h := e.heapGet(s, name, sortS)
		arr := e.declare(s, "cp_arr", "(Array Int "+lf.Sort+")")
		if e.Cfg.StrBytes && lf.Sort == "Int" {
			oldArr := app("select", h, d.L[0])
			var src string
			if srcStr {
				src = fmt.Sprintf("(sat %s (- k!q %s))", args[1].L[0], d.L[1])
			} else {
				src = fmt.Sprintf("(select %s (+ %s (- k!q %s)))", app("select", h, args[1].L[0]), args[1].L[1], d.L[1])
			}
			s.add(fmt.Sprintf("(assert (forall ((k!q Int)) (= (select %s k!q) (ite (and (<= %s k!q) (< k!q (+ %s %s))) %s (select %s k!q)))))", arr, d.L[1], d.L[1], nn, src, oldArr))
		}
		e.heapSet(s, name, sortS, app("store", h, d.L[0], arr))
	}
	return &Val{L: []string{nn}}
}

// checkSoleImpl: an interface-method contract declared "same_as T.m" is sound only if T is the only
// type of the module implementing the interface.
func (e *Engine) checkSoleImpl(c *ssa.CallCommon, target *ssa.Function, key string, in ssa.Instruction) {
	it, ok := c.Value.Type().Underlying().(*types.Interface)
	if !ok {
		return
	}
	want := target.Signature.Recv().Type()
	var others []string
	for _, pk := range e.P.OwnPackages() {
		sc := pk.Types.Scope()
		for _, name := range sc.Names() {
			tn, ok := sc.Lookup(name).(*types.TypeName)
			if !ok {
				continue
			}
			if _, isIface := tn.Type().Underlying().(*types.Interface); isIface {
				continue
			}
			for _, t := range []types.Type{tn.Type(), types.NewPointer(tn.Type())} {
				if types.Implements(t, it) && !types.Identical(t, want) {
					if pt, ok := want.(*types.Pointer); ok && types.Identical(t, pt.Elem()) {
						continue
					}
					others = append(others, t.String())
				}
			}
		}
	}
	e.structural(e.FnKey+"/sole-impl:"+key, "sole-impl", in.Pos(), "interface method "+key+" has a single implementation in the module", len(others) == 0, "other implementations: "+strings.Join(others, ", "))
}

// insideType: is the function being verified a method of (or declared constructor for) the type?
func (e *Engine) insideType(typeKey string) bool {
	fn := e.Fn
	for fn.Parent() != nil {
		fn = fn.Parent()
	}
	if r := fn.Signature.Recv(); r != nil && structKey(deref(r.Type())) == typeKey {
		return true
	}
	if e.Contract != nil && e.Contract.Flags["constructs"] == typeKey {
		return true
	}
	return false
}

// argTypesFor returns the static types of the arguments of the call being executed (when known).
func (e *Engine) argTypesFor(args []*Val) []types.Type {
	if len(e.curArgTypes) == len(args) {
		return e.curArgTypes
	}
	return nil
}

// isPrivateHelper: an unexported method without a contract, called from a method of the same receiver
// type, is verified as part of its caller (inlined, one level deep and never recursively) instead of
// being treated as an unknown callee. This keeps a harmless "extract helper" refactoring from raising
// an alarm and still checks the helper's code against the caller's contract.
func (e *Engine) isPrivateHelper(fn *ssa.Function) bool {
	if fn.Signature.Recv() == nil || ast.IsExported(fn.Name()) || len(e.inlineStack) >= 2 {
		return false
	}
	root := e.Fn
	for root.Parent() != nil {
		root = root.Parent()
	}
	if root.Signature.Recv() == nil {
		return false
	}
	if structKey(deref(root.Signature.Recv().Type())) != structKey(deref(fn.Signature.Recv().Type())) {
		return false
	}
	// only for types that carry an object invariant: there every method must be checked against it
	if _, hasInv := e.C.TypeInvs[structKey(deref(fn.Signature.Recv().Type()))]; !hasInv {
		return false
	}
	k := e.P.FuncKey(fn)
	if k == e.FnKey || e.P.Recursive(fn) {
		return false
	}
	for _, x := range e.inlineStack {
		if x == k {
			return false
		}
	}
	return true
}

// interfereMapAt: another goroutine may have replaced the contents of the map object m.
func (e *Engine) interfereMapAt(s *State, mt *types.Map, m string) {
	md, ml, ks := e.mapNames(mt)
	e.interfere(s, md, "(Array Int (Array "+ks+" Bool))", m, e.declare(s, "mdom", "(Array "+ks+" Bool)"))
	for _, lf := range e.leaves(mt.Elem()) {
		e.interfere(s, e.mapValName(mt, lf.Path), "(Array Int (Array "+ks+" "+lf.Sort+"))", m, e.declare(s, "mvals", "(Array "+ks+" "+lf.Sort+")"))
	}
	nl := e.declare(s, "mlen", "Int")
	s.assume(app(">=", nl, "0"))
	e.interfere(s, ml, "(Array Int Int)", m, nl)
}

// smallHelper: an uncontracted function of the module that is small, loop-free and not recursive is
// verified as part of its caller (so factoring a few lines out of a function under contract does not
// turn them into an unknown call with unknown preconditions).
func (e *Engine) smallHelper(fn *ssa.Function) bool {
	if e.Cfg.NoAutoInline || len(e.inlineStack) >= 4 {
		return false
	}
	k := e.P.FuncKey(fn)
	if k == e.FnKey {
		return false
	}
	for _, x := range e.inlineStack {
		if x == k {
			return false
		}
	}
	return SmallHelperStatic(e.P, fn)
}

// SmallHelperStatic: the static part of the helper test (size, no loop, no goroutine/select/defer/range,
// not recursive, not a closure).
func SmallHelperStatic(p *Program, fn *ssa.Function) bool {
	if fn == nil || len(fn.Blocks) == 0 || p.Recursive(fn) || fn.Parent() != nil || fn.Synthetic != "" {
		return false
	}
	n := 0
	for _, b := range fn.Blocks {
		n += len(b.Instrs)
		for _, in := range b.Instrs {
			switch in.(type) {
			case *ssa.Range:
				return false
			}
		}
		for _, succ := range b.Succs {
			if succ.Dominates(b) {
				return false // back edge: a loop
			}
		}
	}
	return n <= 120
}

// InlinedEverywhere: an unexported small helper that is only ever called directly (never spawned,
// deferred, stored or passed as a value) is checked in the context of each of its callers and needs no
// verification on its own (where it would lack the preconditions its callers establish).
func InlinedEverywhere(p *Program, fn *ssa.Function) bool {
	if !SmallHelperStatic(p, fn) || fn.Object() == nil || fn.Object().Exported() {
		return false
	}
	called := false
	for _, g := range p.All {
		for _, b := range g.Blocks {
			for _, in := range b.Instrs {
				for _, op := range in.Operands(nil) {
					if *op != ssa.Value(fn) {
						continue
					}
					c, ok := in.(*ssa.Call)
					if !ok || c.Call.StaticCallee() != fn || c.Call.Value != ssa.Value(fn) {
						return false
					}
					for _, a := range c.Call.Args {
						if a == ssa.Value(fn) {
							return false
						}
					}
					called = true
				}
			}
		}
	}
	return called
}
