package eng

import (
	"os"
	"runtime/debug"
	"fmt"
	"go/constant"
	"strconv"
	"go/token"
	"go/types"
	"sort"
	"strings"

	"golang.org/x/tools/go/ssa"
)

// CheckConfig selects what is generated for a function.
type CheckConfig struct {
	Safety      bool `json:"safety"`       // generate the zero-annotation safety sweep
	StrBytes    bool `json:"strbytes"`     // keep byte-level facts about string<->[]byte conversions (quantified)
	MaxPaths    int  `json:"max_paths"`
	InlineDepth int  `json:"inline_depth"`
	NoAutoInline bool `json:"no_auto_inline"`
	NilDeref    bool `json:"nilderef"`
	// Unroll > 0 switches to witness-search mode: loops are unrolled that many times without
	// invariants (bounded; used only to find reachable counterexamples for replay, never to prove).
	Unroll int `json:"-"`
}

type loop struct {
	header  *ssa.BasicBlock
	blocks  map[*ssa.BasicBlock]bool
	ordinal int
}

type loopInfo struct {
	byHeader map[*ssa.BasicBlock]*loop
}

func computeLoops(fn *ssa.Function) *loopInfo {
	li := &loopInfo{byHeader: map[*ssa.BasicBlock]*loop{}}
	if len(fn.Blocks) == 0 {
		return li
	}
	for _, b := range fn.Blocks {
		for _, h := range b.Succs {
			if h.Dominates(b) {
				l := li.byHeader[h]
				if l == nil {
					l = &loop{header: h, blocks: map[*ssa.BasicBlock]bool{h: true}}
					li.byHeader[h] = l
				}
				// natural loop of back edge b->h
				stack := []*ssa.BasicBlock{b}
				for len(stack) > 0 {
					n := stack[len(stack)-1]
					stack = stack[:len(stack)-1]
					if l.blocks[n] {
						continue
					}
					l.blocks[n] = true
					stack = append(stack, n.Preds...)
				}
			}
		}
	}
	var hs []*ssa.BasicBlock
	for h := range li.byHeader {
		hs = append(hs, h)
	}
	// source order: by position of the first positioned instruction in the loop, else block index
	sort.Slice(hs, func(i, j int) bool {
		pi, pj := loopPos(li.byHeader[hs[i]]), loopPos(li.byHeader[hs[j]])
		if pi != pj {
			return pi < pj
		}
		return hs[i].Index < hs[j].Index
	})
	for i, h := range hs {
		li.byHeader[h].ordinal = i
	}
	return li
}

func loopPos(l *loop) token.Pos {
	best := token.Pos(1 << 40)
	for b := range l.blocks {
		for _, in := range b.Instrs {
			if p := in.Pos(); p.IsValid() && p < best {
				best = p
			}
		}
	}
	return best
}

// NewEngine prepares verification of fn.
func NewEngine(p *Program, cs *Contracts, fn *ssa.Function, cfg *CheckConfig) *Engine {
	e := &Engine{P: p, C: cs, Cfg: cfg, Fn: fn, FnKey: p.FuncKey(fn), Obls: map[string]*Obligation{}, Notes: map[string]bool{},
		ord: map[ssa.Instruction]map[string]int{}, typeTags: map[string]int{}, strLits: map[string]string{}, loops: map[*ssa.Function]*loopInfo{},
		ifaceAsserted: map[string]*types.Interface{}, heapSorts: map[string]string{}}
	e.Contract = cs.Funcs[e.FnKey]
	e.maxPaths = cfg.MaxPaths
	if e.maxPaths == 0 {
		e.maxPaths = 600
	}
	return e
}

func (e *Engine) loopsOf(fn *ssa.Function) *loopInfo {
	li := e.loops[fn]
	if li == nil {
		li = computeLoops(fn)
		e.loops[fn] = li
		e.numberInstrs(fn)
	}
	return li
}

// kindsOf lists the obligation kinds an instruction can produce (for stable ordinals).
func kindsOf(in ssa.Instruction) []string {
	switch x := in.(type) {
	case *ssa.Slice:
		return []string{"slice"}
	case *ssa.IndexAddr, *ssa.Index:
		return []string{"index", "nilderef"}
	case *ssa.MakeSlice:
		return []string{"makelen"}
	case *ssa.MapUpdate:
		return []string{"nilmap-write", "container-inv", "guarded-access"}
	case *ssa.TypeAssert:
		if !x.CommaOk {
			return []string{"typeassert"}
		}
	case *ssa.BinOp:
		if x.Op == token.QUO || x.Op == token.REM {
			return []string{"div0"}
		}
	case *ssa.Panic:
		return []string{"explicit-panic"}
	case *ssa.Call:
		return []string{"callee-pre", "nilderef", "lockinv", "close-closed", "guarded-access"}
	case *ssa.Defer, *ssa.Go:
		return []string{"callee-pre", "nilderef"}
	case *ssa.RunDefers:
		return []string{"lockinv"}
	case *ssa.FieldAddr:
		return []string{"nilderef", "guarded-access"}
	case *ssa.UnOp:
		if x.Op == token.MUL {
			return []string{"nilderef", "guarded-access"}
		}
	case *ssa.Store:
		return []string{"nilderef", "guarded-access"}
	case *ssa.Send:
		return []string{"send-closed", "container-inv"}
	case *ssa.Lookup:
		return []string{"index", "guarded-access"}
	case *ssa.Next:
		return []string{"guarded-access"}
	case *ssa.Return:
		return []string{"post"}
	case *ssa.Convert:
		return []string{"convert"}
	}
	return nil
}

func (e *Engine) numberInstrs(fn *ssa.Function) {
	counts := map[string]int{}
	for _, b := range fn.Blocks {
		for _, in := range b.Instrs {
			ks := kindsOf(in)
			if len(ks) == 0 {
				continue
			}
			m := map[string]int{}
			for _, k := range ks {
				m[k] = counts[k]
				counts[k]++
			}
			e.ord[in] = m
		}
	}
}

// oblName builds "<func>/<kind>#<ordinal>" for the instruction in the current frame.
func (e *Engine) oblName(s *State, in ssa.Instruction, kind string) string {
	fr := s.top()
	e.loopsOf(fr.Fn)
	n := -1
	if m, ok := e.ord[in]; ok {
		if k, ok := m[kind]; ok {
			n = k
		}
	}
	base := e.FnKey
	if fr.Prefix != "" {
		base += "/" + fr.Prefix
	}
	if n < 0 {
		return fmt.Sprintf("%s/%s", base, kind)
	}
	return fmt.Sprintf("%s/%s#%d", base, kind, n)
}

func (e *Engine) obl(name, kind string, pos token.Pos, desc string) *Obligation {
	o := e.Obls[name]
	if o == nil {
		o = &Obligation{Name: name, Kind: kind, Func: e.FnKey, Pos: e.P.Pos(pos), Desc: desc}
		e.Obls[name] = o
		e.OblOrder = append(e.OblOrder, name)
	}
	return o
}

// assert records goal as a query of the named obligation and then assumes it.
func (e *Engine) assert(s *State, name, kind string, pos token.Pos, desc, goal string) {
	o := e.obl(name, kind, pos, desc)
	if s.Dead {
		return
	}
	if goal == "true" {
		o.Trivial++
		return
	}
	o.Queries = append(o.Queries, &Query{Lines: s.Lines[:len(s.Lines):len(s.Lines)], Goal: goal, Path: s.PathID})
	s.assume(goal)
}

func (e *Engine) structural(name, kind string, pos token.Pos, desc string, ok bool, why string) {
	o := e.obl(name, kind, pos, desc)
	if !o.Structural {
		o.Structural = true
		o.StructOK = true
	}
	if !ok {
		o.StructOK = false
		if o.StructWhy == "" {
			o.StructWhy = why
		}
	}
}

type outcome struct {
	s       *State
	results []*Val
	panic   bool
	frame   *Frame
}

type unsupported struct{ msg string }

func (e *Engine) unsupportedf(format string, a ...interface{}) {
	panic(unsupported{fmt.Sprintf(format, a...)})
}

// allocRef creates a fresh non-nil reference.
func (e *Engine) allocRef(s *State, prefix string) string {
	r := e.declare(s, prefix, "Int")
	al := e.heapGet(s, "Alloc", "(Array Int Bool)")
	s.assume(and(app(">", r, "0"), not(app("select", al, r))))
	e.heapSet(s, "Alloc", "(Array Int Bool)", app("store", al, r, "true"))
	s.FreshRefs[r] = true
	return r
}

func (e *Engine) assumeAllocated(s *State, t types.Type, x string) {
	switch t.Underlying().(type) {
	case *types.Pointer, *types.Map, *types.Chan:
		al := e.heapGet(s, "Alloc", "(Array Int Bool)")
		s.assume(or(eq(x, "0"), app("select", al, x)))
	case *types.Interface:
		// the object an interface value wraps (if it wraps a pointer) exists
		al := e.heapGet(s, "Alloc", "(Array Int Bool)")
		s.assume(or(eq(x, "0"), eq(app("iref", x), "0"), app("select", al, app("iref", x))))
	}
}

func (e *Engine) assumeAllocatedVal(s *State, t types.Type, v *Val) {
	ls := e.leaves(t)
	for i, l := range ls {
		if i < len(v.L) && l.Sort == "Int" {
			if strings.HasSuffix(l.Path, ".b") {
				if _, ok := l.T.Underlying().(*types.Slice); ok {
					al := e.heapGet(s, "Alloc", "(Array Int Bool)")
					s.assume(or(eq(v.L[i], "0"), app("select", al, v.L[i])))
					continue
				}
			}
			e.assumeAllocated(s, l.T, v.L[i])
		}
	}
}

// ---------------------------------------------------------------------------------------------

func (e *Engine) val(s *State, v ssa.Value) *Val {
	switch x := v.(type) {
	case *ssa.Const:
		return e.constVal(s, x)
	case *ssa.Global:
		return &Val{A: &Addr{K: AGlobal, Glob: x, T: deref(x.Type())}, NN: true}
	case *ssa.Function:
		return &Val{Fn: x, L: []string{e.fnTerm(x)}, NN: true}
	case *ssa.Builtin:
		return &Val{L: []string{"0"}}
	}
	fr := s.top()
	if r, ok := fr.Vals[v]; ok {
		return r
	}
	// free variables of inlined closures are bound in the frame at entry
	e.unsupportedf("value %s (%T) not defined on this path in %s", v.Name(), v, fr.Fn.Name())
	return nil
}

func (e *Engine) fnTerm(f *ssa.Function) string {
	k := "fn!" + sanitizeName(sanitize(f.String()))
	e.globalDecl("(declare-const " + k + " Int)")
	e.globalDecl("(assert (> " + k + " 0))")
	return k
}

func (e *Engine) globalDecl(line string) {
	for _, l := range e.globalDecls {
		if l == line {
			return
		}
	}
	e.globalDecls = append(e.globalDecls, line)
}

func (e *Engine) strLit(sv string) string {
	if sv == "" {
		e.globalDecl("(declare-const str!empty Str)")
		e.globalDecl("(assert (= (slen str!empty) 0))")
		return "str!empty"
	}
	if n, ok := e.strLits[sv]; ok {
		return n
	}
	n := fmt.Sprintf("str!lit%d", len(e.strLits))
	e.strLits[sv] = n
	e.globalDecl("(declare-const " + n + " Str)")
	e.globalDecl(fmt.Sprintf("(assert (= (slen %s) %d))", n, len(sv)))
	if len(sv) <= 16 {
		for i := 0; i < len(sv); i++ {
			e.globalDecl(fmt.Sprintf("(assert (= (sat %s %d) %d))", n, i, sv[i]))
		}
	}
	return n
}

// strDistinct is emitted once per query: all literals are pairwise distinct.
func (e *Engine) strDistinct() string {
	if len(e.strLits) == 0 {
		return ""
	}
	names := []string{e.strLit("")}
	var keys []string
	for k := range e.strLits {
		keys = append(keys, k)
	}
	sort.Strings(keys)
	for _, k := range keys {
		names = append(names, e.strLits[k])
	}
	if len(names) < 2 {
		return ""
	}
	return "(assert (distinct " + strings.Join(names, " ") + "))"
}

func (e *Engine) constVal(s *State, c *ssa.Const) *Val {
	t := c.Type()
	if c.Value == nil {
		z := e.zero(t)
		return z
	}
	switch c.Value.Kind() {
	case constant.Bool:
		if constant.BoolVal(c.Value) {
			return &Val{L: []string{"true"}}
		}
		return &Val{L: []string{"false"}}
	case constant.String:
		return &Val{L: []string{e.strLit(constant.StringVal(c.Value))}}
	case constant.Int:
		if b, ok := t.Underlying().(*types.Basic); ok && b.Info()&types.IsFloat != 0 {
			return &Val{L: []string{bigNum(c.Value.ExactString())}}
		}
		return &Val{L: []string{bigNum(c.Value.ExactString())}}
	case constant.Float:
		// floats are abstracted to an opaque integer
		e.note("floating point abstracted")
		f, _ := constant.Float64Val(c.Value)
		return &Val{L: []string{num(int64(f))}}
	}
	e.unsupportedf("constant %s", c)
	return nil
}

func (e *Engine) typeTag(t types.Type) string {
	k := typeKey(t)
	if _, ok := e.typeTags[k]; !ok {
		e.typeTags[k] = len(e.typeTags) + 1
		e.tagTypes = append(e.tagTypes, t)
	}
	return num(int64(e.typeTags[k]))
}

// ---- memory -------------------------------------------------------------------------------

func (e *Engine) heapNameField(skey, path, leaf string) string { return "F!" + skey + "!" + path + leaf }

func (e *Engine) load(s *State, a *Addr, in ssa.Instruction) *Val {
	t := a.T
	switch a.K {
	case ALocal:
		c := s.Locals[a.Alloc]
		if c == nil {
			z := e.zero(t)
			return z
		}
		return &Val{L: c.L, NN: c.NN, Src: c.Src, SrcBase: c.SrcBase, Under: c.Under, Fn: c.Fn, Bind: c.Bind}
	}
	v := &Val{NN: true}
	if a.K == AField && !strings.Contains(a.Path[1:], ".") {
		v.Src = a.SKey + a.Path
		v.SrcBase = a.Base
	}
	for _, l := range e.leaves(t) {
		var term string
		switch a.K {
		case AField:
			h := e.heapGet(s, e.heapNameField(a.SKey, a.Path, l.Path), "(Array Int "+l.Sort+")")
			term = app("select", h, a.Base)
		case AElem:
			h := e.heapGet(s, "E!"+typeKey(t)+l.Path, "(Array Int (Array Int "+l.Sort+"))")
			term = app("select", app("select", h, a.Base), a.Idx)
		case ACell:
			h := e.heapGet(s, "C!"+typeKey(t)+l.Path, "(Array Int "+l.Sort+")")
			term = app("select", h, a.Base)
		case AGlobal:
			term = e.heapGet(s, "G!"+sanitize(a.Glob.String())+sanitize(a.Path)+l.Path, l.Sort)
		}
		ld := e.define(s, "ld", l.Sort, term)
		v.L = append(v.L, ld)
		// heap closure at entry: a reference that is still the entry value of its location was
		// allocated at entry
		if l.Sort == "Int" && (a.K == AField || a.K == ACell) {
			switch l.T.Underlying().(type) {
			case *types.Pointer, *types.Map, *types.Chan:
				var name string
				if a.K == AField {
					name = e.heapNameField(a.SKey, a.Path, l.Path)
				} else {
					name = "C!" + typeKey(t) + l.Path
				}
				// nothing stored in shared memory can be a reference this activation allocated and has
				// not let escape (objects owned by such a reference excepted: they are reached through it)
				if !(s.FreshRefs[a.Base] || s.Private[a.Base]) {
					var frs []string
					for r := range s.FreshRefs {
						frs = append(frs, r)
					}
					for r := range s.Private {
						if !s.FreshRefs[r] {
							frs = append(frs, r)
						}
					}
					sort.Strings(frs)
					var baseOther, ldOther []string
					for _, r := range frs {
						baseOther = append(baseOther, not(eq(a.Base, r)))
						ldOther = append(ldOther, not(eq(ld, r)))
					}
					if len(frs) > 0 {
						// semantic guard: the location read must itself not belong to such an object
						s.assume(implies(and(baseOther...), and(ldOther...)))
					}
				}
				h0 := "H0!" + name
				if s.Decl[h0] && s.Decl["H0!Alloc"] {
					s.assume(implies(and(app("select", "H0!Alloc", a.Base), eq(ld, app("select", h0, a.Base))), or(eq(ld, "0"), app("select", "H0!Alloc", ld))))
				}
			}
		}
	}
	e.assumeTypeInv(s, t, v)
	e.assumeAllocatedVal(s, t, v)
	if a.K == AField {
		e.checkGuard(s, a, in, false)
	}
	if a.K == AGlobal {
		if n, ok := e.constGlobalLen(a.Glob); ok && len(v.L) == 4 {
			s.assume(and(eq(v.L[2], num(n)), not(eq(v.L[0], "0"))))
		}
	}
	return v
}

// constGlobalLen: a package-level slice variable that is assigned exactly once (in the package
// initialiser, from an array literal) and whose address is never taken elsewhere has a known length.
// The check is structural over every function of the package, on every run.
func (e *Engine) constGlobalLen(g *ssa.Global) (int64, bool) {
	if _, ok := deref(g.Type()).Underlying().(*types.Slice); !ok || g.Pkg == nil {
		return 0, false
	}
	if r, ok := e.globLen[g]; ok {
		return r, r >= 0
	}
	res := int64(-1)
	stores := 0
	for _, m := range g.Pkg.Members {
		fn, ok := m.(*ssa.Function)
		if !ok {
			continue
		}
		fns := append([]*ssa.Function{fn}, fn.AnonFuncs...)
		for _, f := range fns {
			for _, b := range f.Blocks {
				for _, in := range b.Instrs {
					for _, op := range in.Operands(nil) {
						if *op != ssa.Value(g) {
							continue
						}
						switch x := in.(type) {
						case *ssa.Store:
							if x.Addr == ssa.Value(g) {
								stores++
								if f.Name() == "init" {
									if sl, ok := x.Val.(*ssa.Slice); ok {
										if at, ok := deref(sl.X.Type()).Underlying().(*types.Array); ok && sl.Low == nil && sl.High == nil {
											res = at.Len()
										}
									}
								} else {
									stores += 100
								}
							} else {
								stores += 100
							}
						case *ssa.UnOp:
						default:
							stores += 100 // address escapes
						}
					}
				}
			}
		}
	}
	// methods of named types
	for _, f := range e.P.All {
		if f.Pkg != g.Pkg || f.Signature.Recv() == nil {
			continue
		}
		for _, b := range f.Blocks {
			for _, in := range b.Instrs {
				for _, op := range in.Operands(nil) {
					if *op == ssa.Value(g) {
						if u, ok := in.(*ssa.UnOp); !ok || u.Op != token.MUL {
							stores += 100
						}
					}
				}
			}
		}
	}
	if stores != 1 {
		res = -1
	}
	if e.globLen == nil {
		e.globLen = map[*ssa.Global]int64{}
	}
	e.globLen[g] = res
	if res >= 0 {
		e.note(fmt.Sprintf("package variable %s is assigned once (initialiser, length %d) and never re-assigned or address-taken (checked)", g.Name(), res))
	}
	return res, res >= 0
}

// isLockPointer: *sync.Mutex or *sync.RWMutex
func isLockPointer(t types.Type) bool {
	p, ok := t.Underlying().(*types.Pointer)
	if !ok {
		return false
	}
	n, ok := p.Elem().(*types.Named)
	return ok && n.Obj().Pkg() != nil && n.Obj().Pkg().Path() == "sync" && (n.Obj().Name() == "Mutex" || n.Obj().Name() == "RWMutex")
}

func (e *Engine) store(s *State, a *Addr, v *Val, in ssa.Instruction) {
	t := a.T
	if a.K == ALocal {
		s.Locals[a.Alloc] = &cell{L: v.L, NN: v.NN, Src: v.Src, SrcBase: v.SrcBase, Under: v.Under, Fn: v.Fn, Bind: v.Bind}
		return
	}
	ls := e.leaves(t)
	if len(ls) == 1 && len(v.L) == 0 && v.A != nil && v.A.K == AField && isLockPointer(t) {
		// the address of a mutex field kept in another object (a lock shared by pointer): locks have no
		// modelled content, so the pointer only needs an identity - faddr(field, object)
		if e.fieldIDs == nil {
			e.fieldIDs = map[string]int{}
		}
		fk := v.A.SKey + v.A.Path
		id, ok := e.fieldIDs[fk]
		if !ok {
			id = len(e.fieldIDs) + 1
			e.fieldIDs[fk] = id
		}
		term := app("faddr", num(int64(id)), v.A.Base)
		s.assume(app(">", term, "0"))
		v = &Val{L: []string{term}, NN: true}
	}
	if len(ls) != len(v.L) {
		e.unsupportedf("store arity mismatch for %s: %d vs %d", t, len(ls), len(v.L))
	}
	for i, l := range ls {
		switch a.K {
		case AField:
			name, sortS := e.heapNameField(a.SKey, a.Path, l.Path), "(Array Int "+l.Sort+")"
			h := e.heapGet(s, name, sortS)
			e.heapSet(s, name, sortS, app("store", h, a.Base, v.L[i]))
		case AElem:
			name, sortS := "E!"+typeKey(t)+l.Path, "(Array Int (Array Int "+l.Sort+"))"
			h := e.heapGet(s, name, sortS)
			e.heapSet(s, name, sortS, app("store", h, a.Base, app("store", app("select", h, a.Base), a.Idx, v.L[i])))
		case ACell:
			name, sortS := "C!"+typeKey(t)+l.Path, "(Array Int "+l.Sort+")"
			h := e.heapGet(s, name, sortS)
			e.heapSet(s, name, sortS, app("store", h, a.Base, v.L[i]))
		case AGlobal:
			name := "G!" + sanitize(a.Glob.String()) + sanitize(a.Path) + l.Path
			e.heapGet(s, name, l.Sort)
			e.heapSet(s, name, l.Sort, v.L[i])
		}
	}
	if a.K == AField {
		e.checkGuard(s, a, in, true)
	}
	if a.K == AField && (s.FreshRefs[a.Base] || s.Private[a.Base]) {
		// stored into an object that is itself still private: reachable only through it
		no := make(map[string]string, len(s.Owner)+1)
		for k, o := range s.Owner {
			no[k] = o
		}
		for _, x := range v.L {
			if s.FreshRefs[x] {
				no[x] = a.Base
			}
		}
		s.Owner = no
		return
	}
	e.escape(s, t, v)
}

// escape: a reference written into the heap / handed to other code is no longer private to this
// activation; neither is anything it owns.
func (e *Engine) escape(s *State, t types.Type, v *Val) {
	for _, x := range v.L {
		e.escapeRef(s, x, 0)
	}
	if v.Under != nil {
		e.escape(s, nil, v.Under)
	}
	for _, c := range v.Tup {
		e.escape(s, nil, c)
	}
}

func (e *Engine) escapeRef(s *State, x string, depth int) {
	if !s.FreshRefs[x] || depth > 8 {
		return
	}
	delete(s.FreshRefs, x)
	for y, o := range s.Owner {
		if o == x {
			e.escapeRef(s, y, depth+1)
		}
	}
}

// addrOf turns a pointer value into a structured address.
func (e *Engine) addrOf(s *State, p *Val, pt types.Type) *Addr {
	if p.A != nil {
		return p.A
	}
	t := deref(pt)
	if len(p.L) != 1 {
		e.unsupportedf("pointer without term")
	}
	switch t.Underlying().(type) {
	case *types.Struct, *types.Array:
		e.unsupportedf("whole-object access through %s handled by caller", pt)
	}
	return &Addr{K: ACell, Base: p.L[0], T: t}
}

// loadPtr loads *p where p has pointer type pt.
func (e *Engine) loadPtr(s *State, p *Val, pt types.Type, in ssa.Instruction) *Val {
	t := deref(pt)
	if p.A == nil {
		switch u := t.Underlying().(type) {
		case *types.Struct:
			// whole struct value: gather every field
			v := &Val{}
			for i := 0; i < u.NumFields(); i++ {
				f := u.Field(i)
				fv := e.load(s, &Addr{K: AField, Base: p.L[0], SKey: structKey(t), Path: "." + f.Name(), T: f.Type()}, in)
				v.L = append(v.L, fv.L...)
			}
			if u.NumFields() == 0 {
				v.L = []string{"0"}
			}
			return v
		case *types.Array:
			v := &Val{}
			for _, l := range e.leaves(u.Elem()) {
				h := e.heapGet(s, "E!"+typeKey(u.Elem())+l.Path, "(Array Int (Array Int "+l.Sort+"))")
				v.L = append(v.L, e.define(s, "ldarr", "(Array Int "+l.Sort+")", app("select", h, p.L[0])))
			}
			return v
		}
	} else if p.A.K == AField {
		if u, ok := t.Underlying().(*types.Struct); ok {
			v := &Val{}
			for i := 0; i < u.NumFields(); i++ {
				f := u.Field(i)
				fv := e.loadPtr(s, &Val{A: &Addr{K: AField, Base: p.A.Base, SKey: p.A.SKey, Path: p.A.Path + "." + f.Name(), T: f.Type(), Fresh: p.A.Fresh}}, types.NewPointer(f.Type()), in)
				v.L = append(v.L, fv.L...)
			}
			if u.NumFields() == 0 {
				v.L = []string{"0"}
			}
			return v
		}
	}
	return e.load(s, e.addrOf(s, p, pt), in)
}

func (e *Engine) storePtr(s *State, p *Val, pt types.Type, v *Val, in ssa.Instruction) {
	t := deref(pt)
	var base, skey, path string
	isField := false
	if p.A == nil {
		base, skey, path = p.L[0], structKey(t), ""
	} else if p.A.K == AField {
		base, skey, path, isField = p.A.Base, p.A.SKey, p.A.Path, true
	}
	if u, ok := t.Underlying().(*types.Struct); ok && (p.A == nil || isField) {
		idx := 0
		for i := 0; i < u.NumFields(); i++ {
			f := u.Field(i)
			n := len(e.leaves(f.Type()))
			fv := &Val{L: v.L[idx : idx+n]}
			idx += n
			e.storePtr(s, &Val{A: &Addr{K: AField, Base: base, SKey: skey, Path: path + "." + f.Name(), T: f.Type()}}, types.NewPointer(f.Type()), fv, in)
		}
		return
	}
	if u, ok := t.Underlying().(*types.Array); ok && p.A == nil {
		for i, l := range e.leaves(u.Elem()) {
			name, sortS := "E!"+typeKey(u.Elem())+l.Path, "(Array Int (Array Int "+l.Sort+"))"
			h := e.heapGet(s, name, sortS)
			e.heapSet(s, name, sortS, app("store", h, p.L[0], v.L[i]))
		}
		return
	}
	e.store(s, e.addrOf(s, p, pt), v, in)
}

// checkGuard enforces "guard S.mu protects f": the lock must be held unless the object is private.
func (e *Engine) checkGuard(s *State, a *Addr, in ssa.Instruction, write bool) {
	if e.C == nil || in == nil {
		return
	}
	first := a.Path
	if i := strings.Index(first[1:], "."); i >= 0 {
		first = first[:i+1]
	}
	for _, g := range e.C.Guards {
		if g.Struct != a.SKey {
			continue
		}
		for _, f := range g.Fields {
			if "."+f != first {
				continue
			}
			key := "F!" + a.SKey + "!." + g.Lock + "@" + a.Base
			mode, held := s.Held[key]
			ok := held && (!write || mode == "w")
			if !ok && (s.FreshRefs[a.Base] || a.Fresh) {
				ok = true // object not yet shared
				e.note("guarded field " + a.SKey + "." + f + " accessed without the lock on an object allocated in the same activation and not yet escaped (" + e.P.Pos(in.Pos()) + ")")
			}
			why := ""
			if !ok {
				why = fmt.Sprintf("%s.%s %s at %s without holding %s (%s)", a.SKey, f, map[bool]string{true: "written", false: "read"}[write], e.P.Pos(in.Pos()), g.Lock, map[bool]string{true: "write lock needed", false: "any lock needed"}[write])
			}
			e.structural(e.oblName(s, in, "guarded-access"), "guarded-access", in.Pos(), a.SKey+"."+f+" accessed under "+g.Lock, ok, why)
		}
	}
}

// ---- execution ----------------------------------------------------------------------------

type workItem struct {
	s    *State
	b    *ssa.BasicBlock
	prev *ssa.BasicBlock
}

// runFunc symbolically executes fn from state s with the given arguments and returns all outcomes.
func (e *Engine) runFunc(s0 *State, fn *ssa.Function, args []*Val, binds []*Val, prefix string) []outcome {
	if len(fn.Blocks) == 0 {
		e.unsupportedf("function %s has no body", fn)
	}
	li := e.loopsOf(fn)
	depth := len(s0.Frames)
	fr := &Frame{Fn: fn, Vals: map[ssa.Value]*Val{}, Prefix: prefix, Depth: depth}
	for i, p := range fn.Params {
		fr.Vals[p] = args[i]
	}
	for i, fv := range fn.FreeVars {
		fr.Vals[fv] = binds[i]
	}
	s0.Frames = append(s0.Frames, fr)
	var outs []outcome
	work := []workItem{{s0, fn.Blocks[0], nil}}
	for len(work) > 0 {
		it := work[len(work)-1]
		work = work[:len(work)-1]
		s := it.s
		if s.Dead {
			continue
		}
		e.npaths++
		if e.npaths > e.maxPaths*40 {
			e.unsupportedf("path budget exceeded (%d block visits)", e.npaths)
		}
		b := it.b
		if l := li.byHeader[b]; l != nil && e.Cfg.Unroll > 0 {
			if it.prev != nil && l.blocks[it.prev] {
				n := 0
				if m := s.LoopEntry[b]; m != nil {
					n, _ = strconv.Atoi(m["n"])
				}
				if n >= e.Cfg.Unroll {
					continue
				}
				s.LoopEntry[b] = map[string]string{"n": strconv.Itoa(n + 1)}
			}
		} else if l != nil {
			if it.prev != nil && l.blocks[it.prev] {
				e.loopBack(s, fn, l)
				if depth == 0 {
					e.Paths = append(e.Paths, &PathEnd{S: s, Kind: "loopback"})
				}
				continue
			}
			e.loopEnter(s, fn, l)
			if s.Dead {
				continue
			}
		}
		next := e.execBlock(s, b, 0, it.prev, &outs)
		for i := len(next) - 1; i >= 0; i-- {
			work = append(work, next[i])
		}
	}
	for i := range outs {
		o := &outs[i]
		o.frame = o.s.top()
		o.s.Frames = o.s.Frames[:len(o.s.Frames)-1]
	}
	return outs
}

func (e *Engine) frameContract(fn *ssa.Function) *Contract {
	if e.C == nil {
		return nil
	}
	return e.C.Funcs[e.P.FuncKey(fn)]
}

func (e *Engine) loopName(s *State, l *loop, kind string, k int) string {
	fr := s.top()
	base := e.FnKey
	if fr.Prefix != "" {
		base += "/" + fr.Prefix
	}
	return fmt.Sprintf("%s/loop%d-%s#%d", base, l.ordinal, kind, k)
}

func (e *Engine) loopEnter(s *State, fn *ssa.Function, l *loop) {
	c := e.frameContract(fn)
	var invs []Clause
	var dec *Clause
	if c != nil {
		invs = e.loopInvs(c, l.ordinal)
		if d, ok := c.LoopDec[l.ordinal]; ok {
			dec = &d
		}
	}
	pos := l.header.Instrs[0].Pos()
	// ghost iteration counter iter<k>: 0 at entry, +1 at every back edge
	iterKey := fmt.Sprintf("iter%d", l.ordinal)
	s.Ghost[iterKey] = "0"
	for k, inv := range invs {
		cx := e.specCtx(s, fn)
		cx.LoopSnap = s.Heap // at entry the current heap is the loop-entry heap
		t, _ := e.tryEvalBool(s, cx, inv.Expr)
		e.assert(s, e.loopName(s, l, "inv-init", k), "inv-init", pos, inv.Text, t)
	}
	// snapshot for loopentry()
	snap := map[string]string{}
	for k, v := range s.Heap {
		snap[k] = v
	}
	nl := map[*ssa.BasicBlock]map[string]string{}
	for k, v := range s.LoopHeap {
		nl[k] = v
	}
	nl[l.header] = snap
	s.LoopHeap = nl
	// havoc everything the loop may modify
	mods := e.loopMods(fn, l)
	for _, al := range mods.allocs {
		if c := s.Locals[al]; c != nil {
			t := deref(al.Type())
			nv := e.havocVal(s, t, "lh_"+sanitizeName(al.Comment))
			e.assumeAllocatedVal(s, t, nv)
			s.Locals[al] = &cell{L: nv.L}
		}
	}
	if mods.all {
		e.havocAll(s)
	} else {
		var names []string
		for name := range e.heapSorts {
			names = append(names, name)
		}
		sort.Strings(names)
		for _, name := range names {
			for _, pre := range mods.heap {
				if strings.HasPrefix(name, pre) {
					e.heapHavoc(s, name)
					break
				}
			}
		}
		s.pendingHavoc = append(s.pendingHavoc, mods.heap...)
	}
	for it := range s.Iters {
		if in, ok := it.(ssa.Instruction); ok && l.blocks[in.Block()] {
			continue
		}
		// iterators created outside and advanced inside the loop
		for b := range l.blocks {
			for _, in := range b.Instrs {
				if nx, ok := in.(*ssa.Next); ok && nx.Iter == it {
					st := s.Iters[it]
					if st.MT != nil {
						ks := e.leaves(st.MT.Key())[0].Sort
						st.V = e.declare(s, "visited", "(Array "+ks+" Bool)")
						// V subset of dom
						s.add(fmt.Sprintf("(assert (forall ((k!q %s)) (=> (select %s k!q) (select %s k!q))))", ks, st.V, st.Dom0))
						if st.Vals0 != "" {
							for _, f := range e.foldsFor(st.MT) {
								sym := e.foldSym(f, st.MT)
								s.assume(and(app(">=", app(sym, st.V, st.Vals0), "0"), app("<=", app(sym, st.V, st.Vals0), app(sym, st.Dom0, st.Vals0))))
							}
						}
					}
				}
			}
		}
	}
	e.event(s, Event{Kind: "loophead", What: fmt.Sprint(l.ordinal), Pos: e.P.Pos(pos)})
	itv := e.declare(s, "iter", "Int")
	s.assume(app(">=", itv, "0"))
	s.Ghost[iterKey] = itv
	// implicit invariant of a compiler-generated slice range loop: -1 <= rangeindex < len
	if ri := e.rangeIndexInv(s, l); ri != "" {
		s.assume(ri)
	}
	// implicit frame invariant: what the contract's modifies clause does not name keeps, for every object
	// that existed when the loop was entered, the value it had then (checked again at the back edge)
	if gs := e.loopFrame(s, fn, l); len(gs) > 0 {
		for _, g := range gs {
			s.add("(assert " + g + ")")
		}
	}
	for _, inv := range invs {
		cx := e.specCtx(s, fn)
		cx.LoopSnap = s.LoopHeap[l.header]
		t, _ := e.tryEvalBool(s, cx, inv.Expr)
		s.assume(t)
	}
	// heap at the start of this (arbitrary) iteration, for iterstart()
	ih := make(map[string]string, len(s.Heap))
	for k, v := range s.Heap {
		ih[k] = v
	}
	s.IterHeap = ih
	// and the locals at that moment, for iterstart(local)
	il := make(map[*ssa.Alloc]*cell, len(s.Locals))
	for k, v := range s.Locals {
		il[k] = v
	}
	s.IterLocals = il
	if dec != nil {
		m := e.evalTerm(s, e.specCtx(s, fn), dec.Expr)
		mm := e.define(s, "measure", "Int", m)
		if s.LoopEntry[l.header] == nil {
			s.LoopEntry[l.header] = map[string]string{}
		} else {
			cp := map[string]string{}
			for k, v := range s.LoopEntry[l.header] {
				cp[k] = v
			}
			s.LoopEntry[l.header] = cp
		}
		s.LoopEntry[l.header] = map[string]string{"m": mm}
	}
}

func (e *Engine) loopBack(s *State, fn *ssa.Function, l *loop) {
	c := e.frameContract(fn)
	if c == nil {
		return
	}
	pos := l.header.Instrs[0].Pos()
	iterKey := fmt.Sprintf("iter%d", l.ordinal)
	if cur, ok := s.Ghost[iterKey]; ok {
		s.Ghost[iterKey] = app("+", cur, "1")
	}
	if ri := e.rangeIndexInv(s, l); ri != "" {
		e.assert(s, e.loopName(s, l, "rangeindex", 0), "inv-keep", pos, "range index stays within -1 .. len-1", ri)
	}
	if gs := e.loopFrame(s, fn, l); len(gs) > 0 {
		e.assert(s, e.loopName(s, l, "frame", 0), "frame", pos, "the loop body changes only what the modifies clause names (objects existing at loop entry)", and(gs...))
	}
	for k, inv := range e.loopInvs(c, l.ordinal) {
		cx := e.specCtx(s, fn)
		cx.LoopSnap = s.LoopHeap[l.header]
		t, _ := e.tryEvalBool(s, cx, inv.Expr)
		e.assert(s, e.loopName(s, l, "inv-keep", k), "inv-keep", pos, inv.Text, t)
	}
	if d, ok := c.LoopDec[l.ordinal]; ok {
		m := e.evalTerm(s, e.specCtx(s, fn), d.Expr)
		m0 := s.LoopEntry[l.header]["m"]
		e.assert(s, e.loopName(s, l, "decreases", 0), "decreases", pos, d.Text, and(app(">=", m0, "0"), app("<", m, m0)))
	}
}

type mods struct {
	allocs []*ssa.Alloc
	heap   []string
	all    bool
}

func (e *Engine) loopMods(fn *ssa.Function, l *loop) mods {
	var m mods
	seen := map[*ssa.Alloc]bool{}
	var blocks []*ssa.BasicBlock
	for b := range l.blocks {
		blocks = append(blocks, b)
	}
	sort.Slice(blocks, func(i, j int) bool { return blocks[i].Index < blocks[j].Index })
	for _, b := range blocks {
		for _, in := range b.Instrs {
			e.instrMods(in, seen, &m, 0)
		}
	}
	return m
}

// instrMods adds what one instruction may modify (for the havoc at a loop head).
func (e *Engine) instrMods(in ssa.Instruction, seen map[*ssa.Alloc]bool, m *mods, depth int) {
	switch x := in.(type) {
	case *ssa.Store:
		e.storeTargets(x.Addr, seen, m)
	case *ssa.MapUpdate:
		m.heap = append(m.heap, "MD!")
		m.heap = append(m.heap, "MV!")
		m.heap = append(m.heap, "ML!")
	case *ssa.Send:
		m.heap = append(m.heap, "CL!")
	case *ssa.UnOp:
		if x.Op == token.ARROW {
			m.heap = append(m.heap, "CL!")
		}
	case *ssa.Select:
		m.heap = append(m.heap, "CL!")
	case *ssa.Alloc, *ssa.MakeMap, *ssa.MakeSlice, *ssa.MakeChan, *ssa.MakeClosure, *ssa.MakeInterface:
		m.heap = append(m.heap, "Alloc")
		if al, ok := x.(*ssa.Alloc); ok {
			if !seen[al] {
				seen[al] = true
				m.allocs = append(m.allocs, al)
			}
			// re-initialised objects
			t := deref(al.Type())
			if _, ok := t.Underlying().(*types.Struct); ok {
				m.heap = append(m.heap, "F!" + structKey(t) + "!")
			}
			if at, ok := t.Underlying().(*types.Array); ok {
				m.heap = append(m.heap, "E!" + typeKey(at.Elem()))
			}
			if e.allocEscapes(al) {
				m.heap = append(m.heap, "C!" + typeKey(t))
			}
		}
		if _, ok := x.(*ssa.MakeMap); ok {
			m.heap = append(m.heap, "MD!")
			m.heap = append(m.heap, "MV!")
			m.heap = append(m.heap, "ML!")
		}
		if ms, ok := x.(*ssa.MakeSlice); ok {
			m.heap = append(m.heap, "E!" + typeKey(ms.Type().Underlying().(*types.Slice).Elem()))
		}
		if _, ok := x.(*ssa.MakeChan); ok {
			m.heap = append(m.heap, "CL!")
			m.heap = append(m.heap, "CC!")
		}
	case *ssa.Convert:
		if sl, ok := x.Type().Underlying().(*types.Slice); ok {
			m.heap = append(m.heap, "Alloc")
			m.heap = append(m.heap, "E!" + typeKey(sl.Elem()))
		}
	case *ssa.Call:
		e.callModsDepth(x.Common(), m, seen, depth)
	case *ssa.Go:
		m.all = true
	case *ssa.Defer:
		e.callModsDepth(x.Common(), m, seen, depth)
	case *ssa.RunDefers:
		m.all = true
	}
	if m.all && os.Getenv("GOVC_DEBUG_HAVOC") != "" {
		fmt.Fprintf(os.Stderr, "instrMods: all after %T %v in %s\n", in, in, in.Parent())
	}

}

func (e *Engine) storeTargets(addr ssa.Value, seen map[*ssa.Alloc]bool, m *mods) {
	switch a := addr.(type) {
	case *ssa.Alloc:
		if !seen[a] {
			seen[a] = true
			m.allocs = append(m.allocs, a)
		}
		t := deref(a.Type())
		if _, ok := t.Underlying().(*types.Struct); ok {
			m.heap = append(m.heap, "F!"+structKey(t)+"!")
		} else if at, ok := t.Underlying().(*types.Array); ok {
			m.heap = append(m.heap, "E!"+typeKey(at.Elem()))
		} else if e.allocEscapes(a) {
			m.heap = append(m.heap, "C!"+typeKey(t))
		}
	case *ssa.FieldAddr:
		st := deref(a.X.Type())
		// nested struct paths share the prefix
		root := st
		path := "." + st.Underlying().(*types.Struct).Field(a.Field).Name()
		x := a.X
		for {
			fa, ok := x.(*ssa.FieldAddr)
			if !ok {
				break
			}
			root = deref(fa.X.Type())
			path = "." + root.Underlying().(*types.Struct).Field(fa.Field).Name() + path
			x = fa.X
		}
		m.heap = append(m.heap, "F!"+structKey(root)+"!"+path)
	case *ssa.IndexAddr:
		var et types.Type
		switch u := a.X.Type().Underlying().(type) {
		case *types.Slice:
			et = u.Elem()
		case *types.Pointer:
			et = u.Elem().Underlying().(*types.Array).Elem()
		}
		m.heap = append(m.heap, "E!"+typeKey(et))
	case *ssa.Global:
		m.heap = append(m.heap, "G!"+sanitize(a.String()))
	default:
		t := deref(addr.Type())
		if _, ok := t.Underlying().(*types.Struct); ok {
			m.heap = append(m.heap, "F!"+structKey(t)+"!")
		} else {
			m.heap = append(m.heap, "C!"+typeKey(t))
		}
	}
}

func (e *Engine) allocEscapes(a *ssa.Alloc) bool {
	if !addrEscapes(a, a.Referrers(), 0) {
		return false
	}
	// a variable that is assigned once and then only captured by closures that merely read it cannot be
	// changed by anyone: it keeps its value across calls like any other local
	return !readOnlyCapture(a)
}

// readOnlyCapture: the only way the address of a leaves the function is as a closure binding, every such
// closure only loads its free variable, and a is stored to exactly once (its initialisation).
func readOnlyCapture(a *ssa.Alloc) bool {
	if a.Referrers() == nil {
		return false
	}
	if _, isStruct := deref(a.Type()).Underlying().(*types.Struct); isStruct {
		return false
	}
	stores, captured := 0, false
	for _, r := range *a.Referrers() {
		switch x := r.(type) {
		case *ssa.Store:
			if x.Val == ssa.Value(a) || x.Addr != ssa.Value(a) {
				return false
			}
			stores++
		case *ssa.UnOp:
			if x.Op != token.MUL {
				return false
			}
		case *ssa.DebugRef:
		case *ssa.MakeClosure:
			fn, ok := x.Fn.(*ssa.Function)
			if !ok {
				return false
			}
			for i, b := range x.Bindings {
				if b != ssa.Value(a) {
					continue
				}
				if i >= len(fn.FreeVars) || fn.FreeVars[i].Referrers() == nil {
					return false
				}
				for _, fr := range *fn.FreeVars[i].Referrers() {
					switch y := fr.(type) {
					case *ssa.UnOp:
						if y.Op != token.MUL {
							return false
						}
					case *ssa.DebugRef:
					default:
						return false // stored to, or passed on, inside the closure
					}
				}
				captured = true
			}
		default:
			return false
		}
	}
	return captured && stores == 1
}

// addrEscapes: may the address value v (an Alloc or an address derived from it) become visible to
// code outside this function body? Loads, stores through it and further field/index addressing do
// not leak it; anything else (call argument, stored as a value, closure binding, slicing) does.
func addrEscapes(v ssa.Value, refs *[]ssa.Instruction, depth int) bool {
	if refs == nil || depth > 6 {
		return true
	}
	for _, r := range *refs {
		switch x := r.(type) {
		case *ssa.Store:
			if x.Val == v {
				return true
			}
		case *ssa.UnOp:
			if x.Op != token.MUL {
				return true
			}
		case *ssa.FieldAddr:
			if addrEscapes(x, x.Referrers(), depth+1) {
				return true
			}
		case *ssa.IndexAddr:
			if addrEscapes(x, x.Referrers(), depth+1) {
				return true
			}
		case *ssa.DebugRef:
		default:
			return true
		}
	}
	return false
}

func (e *Engine) havocAll(s *State) {
	if os.Getenv("GOVC_DEBUG_HAVOC") != "" {
		fmt.Fprintf(os.Stderr, "havocAll in %s stack=%v\n%s\n", e.FnKey, e.inlineStack, debug.Stack())
	}
	var names []string
	for name := range e.heapSorts {
		names = append(names, name)
	}
	sort.Strings(names)
	var priv []string
	for r := range s.Private {
		priv = append(priv, r)
	}
	for r := range s.FreshRefs {
		if !s.Private[r] {
			priv = append(priv, r)
		}
	}
	sort.Strings(priv)
	for _, name := range names {
		if name == "Alloc" {
			// allocation only grows
			old := e.heapGet(s, "Alloc", "(Array Int Bool)")
			e.heapHavoc(s, name)
			nw := s.Heap["Alloc"]
			s.add(fmt.Sprintf("(assert (forall ((r!q Int)) (=> (select %s r!q) (select %s r!q))))", old, nw))
			continue
		}
		if strings.HasPrefix(name, "CC!") {
			continue // channel capacities never change
		}
		if e.immutableHeap(name) {
			continue // field written only while its object is being constructed (checked structurally)
		}
		old, had := s.Heap[name]
		e.heapHavoc(s, name)
		if had && strings.HasPrefix(e.heapSorts[name], "(Array Int ") && name != "CC!" {
			// objects whose address never leaves this function body cannot be touched by anyone else
			for _, r := range priv {
				s.assume(eq(app("select", s.Heap[name], r), app("select", old, r)))
			}
		}
	}
	s.Epoch++
}

func (e *Engine) immutableHeap(name string) bool {
	if e.C == nil || !strings.HasPrefix(name, "F!") {
		return false
	}
	for f := range e.C.Immutable {
		i := strings.LastIndex(f, ".")
		if strings.HasPrefix(name, "F!"+f[:i]+"!."+f[i+1:]) {
			rest := name[len("F!"+f[:i]+"!."+f[i+1:]):]
			if rest == "" || rest[0] == '.' || rest[0] == '!' {
				return true
			}
		}
	}
	return false
}

func (e *Engine) execBlock(s *State, b *ssa.BasicBlock, start int, prev *ssa.BasicBlock, outs *[]outcome) []workItem {
	fr := s.top()
	for _, in := range b.Instrs[start:] {
		if s.Dead {
			return nil
		}
		switch x := in.(type) {
		case *ssa.Phi:
			for i, p := range b.Preds {
				if p == prev {
					fr.Vals[x] = e.val(s, x.Edges[i])
				}
			}
		case *ssa.If:
			c := e.val(s, x.Cond).L[0]
			st, sf := s, s.clone()
			st.assume(c)
			sf.assume(not(c))
			e.pathCounter++
			sf.PathID = e.pathCounter
			return []workItem{{st, b.Succs[0], b}, {sf, b.Succs[1], b}}
		case *ssa.Jump:
			return []workItem{{s, b.Succs[0], b}}
		case *ssa.Return:
			var rs []*Val
			for _, r := range x.Results {
				rs = append(rs, e.val(s, r))
			}
			*outs = append(*outs, outcome{s: s, results: rs})
			return nil
		case *ssa.Panic:
			e.assert(s, e.oblName(s, in, "explicit-panic"), "explicit-panic", in.Pos(), "panic(...) is unreachable", "false")
			return nil
		default:
			forks := e.execInstr(s, in)
			if forks != nil {
				// the instruction split the path; continue each fork at the following instruction
				var items []workItem
				for _, f := range forks {
					if f.Dead {
						continue
					}
					items = append(items, e.resume(f, b, in, outs)...)
				}
				return items
			}
		}
	}
	return nil
}

// resume continues block b after instruction `after` on state s.
func (e *Engine) resume(s *State, b *ssa.BasicBlock, after ssa.Instruction, outs *[]outcome) []workItem {
	for i, in := range b.Instrs {
		if in == after {
			return e.execBlock(s, b, i+1, nil, outs)
		}
	}
	return nil
}

// checkGuardContents: the contents of a map/slice/chan held in a guarded field are protected by the
// same lock as the field: operations on a value loaded from such a field need the lock.
func (e *Engine) checkGuardContents(s *State, v *Val, in ssa.Instruction, write bool) {
	if v == nil || v.Src == "" || e.C == nil || in == nil {
		return
	}
	i := strings.LastIndex(v.Src, ".")
	skey, field := v.Src[:i], v.Src[i+1:]
	e.checkGuard(s, &Addr{K: AField, Base: v.SrcBase, SKey: skey, Path: "." + field}, in, write)
}

// loopInvs: the invariants of loop k; the sequential pass adds the invariant_exclusive ones.
func (e *Engine) loopInvs(c *Contract, k int) []Clause {
	invs := c.LoopInv[k]
	if e.Exclusive {
		invs = append(append([]Clause{}, invs...), c.LoopInvExcl[k]...)
	}
	return invs
}

// loopFrame builds the implicit frame invariant of loop l for the top-level function under a contract
// with a proper modifies clause.
func (e *Engine) loopFrame(s *State, fn *ssa.Function, l *loop) []string {
	if s.top().Depth != 0 || e.Contract == nil || e.Contract.Flag("noframe") {
		return nil
	}
	for _, m := range e.Contract.Modifies {
		if m == "*" {
			return nil
		}
	}
	snap := s.LoopHeap[l.header]
	if snap == nil {
		return nil
	}
	// only objects that existed when the function was entered: what the function allocated itself is
	// its own business (explicit invariants speak about it)
	alloc := "H0!Alloc"
	if !s.Decl[alloc] {
		return nil
	}
	ctx := e.specCtx(s, fn)
	excs := e.frameExceptions(s, ctx)
	var names []string
	for name := range snap {
		names = append(names, name)
	}
	sort.Strings(names)
	return e.frameFormula(s, names, s.Heap, snap, alloc, excs)
}

// rangeIndexInv recognises the lowering of "for i, x := range slice": the header loads the hidden index,
// adds one, stores it back and compares with the length taken before the loop. Returns the invariant
// -1 <= index < len over the current value of the index cell ("" if the loop is not of that shape).
func (e *Engine) rangeIndexInv(s *State, l *loop) string {
	h := l.header
	if len(h.Instrs) < 5 {
		return ""
	}
	ld, ok := h.Instrs[0].(*ssa.UnOp)
	if !ok || ld.Op != token.MUL {
		return ""
	}
	al, ok := ld.X.(*ssa.Alloc)
	if !ok || al.Comment != "rangeindex" {
		return ""
	}
	add, ok := h.Instrs[1].(*ssa.BinOp)
	if !ok || add.Op != token.ADD || add.X != ssa.Value(ld) {
		return ""
	}
	st, ok := h.Instrs[2].(*ssa.Store)
	if !ok || st.Addr != ssa.Value(al) || st.Val != ssa.Value(add) {
		return ""
	}
	cmp, ok := h.Instrs[3].(*ssa.BinOp)
	if !ok || cmp.Op != token.LSS || cmp.X != ssa.Value(add) {
		return ""
	}
	c := s.Locals[al]
	lenv, okv := s.top().Vals[cmp.Y]
	if c == nil || !okv || len(c.L) != 1 || len(lenv.L) != 1 {
		return ""
	}
	return and(app("<=", "(- 1)", c.L[0]), app("<", c.L[0], app("imax", lenv.L[0], "0")), app("<=", lenv.L[0], "4611686018427387904"))
}
