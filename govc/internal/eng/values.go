package eng

import (
	"fmt"
	"regexp"
	"go/types"
	"strings"

	"golang.org/x/tools/go/ssa"
)

// Leaf is one SMT-sorted component of a flattened Go value.
type Leaf struct {
	Path string
	Sort string
	T    types.Type
}

type AddrKind int

const (
	ALocal  AddrKind = iota // a non-escaping local cell
	AField                  // field (path) of the struct object Base
	AElem                   // element Idx of backing array Base
	AGlobal                 // package-level variable
	ACell                   // escaped scalar cell Base
)

// Addr is the structured provenance of a pointer value.
type Addr struct {
	K     AddrKind
	Alloc *ssa.Alloc
	Base  string // ref term
	SKey  string // struct type key (AField)
	Path  string // field path within the struct (AField) e.g. ".mu" or ".a.b"
	Idx   string
	Glob  *ssa.Global
	T     types.Type // pointee type
	Fresh bool       // Base allocated in this activation
}

func (a *Addr) Key() string {
	switch a.K {
	case ALocal:
		return fmt.Sprintf("local:%p", a.Alloc)
	case AField:
		return "F!" + a.SKey + "!" + a.Path + "@" + a.Base
	case AElem:
		return "E@" + a.Base + "[" + a.Idx + "]"
	case AGlobal:
		return "G!" + a.Glob.String()
	case ACell:
		return "C@" + a.Base
	}
	return "?"
}

// Val is a symbolic Go value.
type Val struct {
	L    []string // leaf terms (see leaves())
	A    *Addr    // structured pointer
	NN   bool     // trusted non-nil (receiver, field load, fresh allocation)
	Fn   *ssa.Function
	Bind []*Val
	Tup  []*Val
	// Prov marks where a ref value came from, for nilderef policy.
	Fresh bool
	Src   string // "pkg.Struct.field" when the value was loaded from that field (container invariants)
	SrcBase string // the object the field was loaded from
	Under *Val // for an interface value made here: the wrapped value (escape tracking)
}

var reByte = regexp.MustCompile(`\bbyte\b`)
var reRune = regexp.MustCompile(`\brune\b`)

func typeKey(t types.Type) string {
	s := types.TypeString(t, func(p *types.Package) string { return PkgShort(p.Path()) })
	s = reByte.ReplaceAllString(s, "uint8")
	s = reRune.ReplaceAllString(s, "int32")
	s = strings.ReplaceAll(s, "interface{}", "any")
	r := strings.NewReplacer(" ", "_", "*", "P", "[", "L", "]", "R", "{", "_", "}", "_", ";", "_", "(", "_", ")", "_", ",", "_", "/", "_", "\"", "_", ":", "_")
	return r.Replace(s)
}

func isInteger(t types.Type) (bits int, signed bool, ok bool) {
	b, isb := t.Underlying().(*types.Basic)
	if !isb {
		return 0, false, false
	}
	switch b.Kind() {
	case types.Int8:
		return 8, true, true
	case types.Int16:
		return 16, true, true
	case types.Int32, types.UntypedRune:
		return 32, true, true
	case types.Int, types.Int64, types.UntypedInt:
		return 64, true, true
	case types.Uint8:
		return 8, false, true
	case types.Uint16:
		return 16, false, true
	case types.Uint32:
		return 32, false, true
	case types.Uint, types.Uint64, types.Uintptr:
		return 64, false, true
	}
	return 0, false, false
}

func pow2(bits int) string {
	switch bits {
	case 7:
		return "128"
	case 8:
		return "256"
	case 15:
		return "32768"
	case 16:
		return "65536"
	case 31:
		return "2147483648"
	case 32:
		return "4294967296"
	case 63:
		return "9223372036854775808"
	case 64:
		return "18446744073709551616"
	}
	panic("pow2")
}

// rangeOf returns the term constraining x to t's range ("true" when unconstrained).
func rangeOf(t types.Type, x string) string {
	bits, signed, ok := isInteger(t)
	if !ok {
		return "true"
	}
	if signed {
		return and(app("<=", "(- "+pow2(bits-1)+")", x), app("<", x, pow2(bits-1)))
	}
	return and(app("<=", "0", x), app("<", x, pow2(bits)))
}

// wrap reduces an unbounded integer term into t's range with Go's wrap-around.
func wrap(t types.Type, x string) string {
	bits, signed, ok := isInteger(t)
	if !ok {
		return x
	}
	if signed {
		return app("wraps", x, pow2(bits-1))
	}
	return app("wrapu", x, pow2(bits))
}

func sortOfBasic(b *types.Basic) string {
	switch {
	case b.Info()&types.IsBoolean != 0:
		return "Bool"
	case b.Info()&types.IsString != 0:
		return "Str"
	}
	return "Int" // integers, floats (abstracted), unsafe.Pointer
}

func (e *Engine) leaves(t types.Type) []Leaf {
	switch u := t.Underlying().(type) {
	case *types.Basic:
		return []Leaf{{"", sortOfBasic(u), t}}
	case *types.Pointer, *types.Map, *types.Chan, *types.Signature, *types.Interface:
		return []Leaf{{"", "Int", t}}
	case *types.Slice:
		it := types.Typ[types.Int]
		return []Leaf{{".b", "Int", t}, {".o", "Int", it}, {".l", "Int", it}, {".c", "Int", it}}
	case *types.Array:
		var out []Leaf
		for _, l := range e.leaves(u.Elem()) {
			out = append(out, Leaf{"!arr" + l.Path, "(Array Int " + l.Sort + ")", t})
		}
		return out
	case *types.Struct:
		var out []Leaf
		for i := 0; i < u.NumFields(); i++ {
			f := u.Field(i)
			for _, l := range e.leaves(f.Type()) {
				out = append(out, Leaf{"." + f.Name() + l.Path, l.Sort, l.T})
			}
		}
		if len(out) == 0 {
			out = append(out, Leaf{".$empty", "Int", types.Typ[types.Int]})
		}
		return out
	case *types.Tuple:
		var out []Leaf
		for i := 0; i < u.Len(); i++ {
			for _, l := range e.leaves(u.At(i).Type()) {
				out = append(out, Leaf{fmt.Sprintf("#%d%s", i, l.Path), l.Sort, l.T})
			}
		}
		return out
	}
	return []Leaf{{"", "Int", t}}
}

func zeroOfSort(sort string) string {
	switch sort {
	case "Int":
		return "0"
	case "Bool":
		return "false"
	case "Str":
		return "str!empty"
	}
	if strings.HasPrefix(sort, "(Array Int ") {
		inner := strings.TrimSuffix(strings.TrimPrefix(sort, "(Array Int "), ")")
		return "((as const " + sort + ") " + zeroOfSort(inner) + ")"
	}
	if strings.HasPrefix(sort, "(Array Str ") {
		inner := strings.TrimSuffix(strings.TrimPrefix(sort, "(Array Str "), ")")
		return "((as const " + sort + ") " + zeroOfSort(inner) + ")"
	}
	panic("zeroOfSort " + sort)
}

func (e *Engine) zero(t types.Type) *Val {
	v := &Val{}
	for _, l := range e.leaves(t) {
		v.L = append(v.L, zeroOfSort(l.Sort))
	}
	return v
}

func structKey(t types.Type) string {
	if n, ok := t.(*types.Named); ok {
		if n.Obj().Pkg() != nil {
			return PkgShort(n.Obj().Pkg().Path()) + "." + n.Obj().Name()
		}
		return n.Obj().Name()
	}
	if a, ok := t.(*types.Alias); ok {
		return structKey(types.Unalias(a))
	}
	return "anon_" + typeKey(t)
}

func deref(t types.Type) types.Type {
	if p, ok := t.Underlying().(*types.Pointer); ok {
		return p.Elem()
	}
	return t
}

func isRefLike(t types.Type) bool {
	switch t.Underlying().(type) {
	case *types.Pointer, *types.Map, *types.Chan, *types.Signature, *types.Interface:
		return true
	}
	return false
}
