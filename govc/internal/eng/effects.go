package eng

import (
	"fmt"
	"go/ast"
	"go/token"
	"go/types"
	"sort"
	"strconv"
	"strings"
	"time"

	"golang.org/x/tools/go/ssa"
)

// AnalysisSpec selects an effect/structure analysis run on top of the per-function results.
type AnalysisSpec struct {
	Name      string            `json:"name"`
	Tier      string            `json:"tier,omitempty"`
	Functions []string          `json:"functions,omitempty"`
	Args      map[string]string `json:"args,omitempty"`
	List      []string          `json:"list,omitempty"`
}

type AnalysisResult struct {
	Name    string
	Summary string
	Details []string
	Obls    []*OblResult
}

func findFunc(funcs []*FuncResult, key string) *FuncResult {
	for _, f := range funcs {
		if f.Key == key {
			return f
		}
	}
	return nil
}

// RunAnalysis dispatches on the analysis name.
func RunAnalysis(as AnalysisSpec, progs []*Program, cs *Contracts, funcs []*FuncResult, work string, timeout time.Duration) *AnalysisResult {
	switch as.Name {
	case "nonblocking":
		return analyseNonblocking(as, funcs, work, timeout)
	case "no-block-under-lock":
		return analyseBlocking(as, funcs, work, timeout, true)
	}
	if f, ok := analyses[as.Name]; ok {
		return f(as, progs, cs, funcs, work, timeout)
	}
	return &AnalysisResult{Name: as.Name, Summary: "unknown analysis", Obls: []*OblResult{{Name: "analysis/" + as.Name, Kind: "analysis", Result: "failed", Why: "unknown analysis"}}}
}

type analysisFn func(as AnalysisSpec, progs []*Program, cs *Contracts, funcs []*FuncResult, work string, timeout time.Duration) *AnalysisResult

var analyses = map[string]analysisFn{}

// analyseNonblocking: on every explored path of each listed function there is no potentially blocking
// instruction, bottom-up through the calls: a send needs proven room (SMT) or sits in a select with
// default; receives, selects without default, sleeps, waits, externals listed as blocking are blocking;
// a call to a function of the module is blocking iff that function (verified in the same run) is; a
// call to an interface method of the module is blocking iff any verified implementation is. Calls to
// user callbacks (function values) are reported under the assumption named in args["callbacks"].
// args["allow"]: comma list of "kind:what" events that are permitted (documented back-pressure).
// args["blocking_externals"]: comma list of external callee keys that block.
func analyseNonblocking(as AnalysisSpec, funcs []*FuncResult, work string, timeout time.Duration) *AnalysisResult {
	return analyseBlocking(as, funcs, work, timeout, false)
}

// analyseBlocking with underLock: only events that happen while a lock of the function is held count
// (kind no-block-under-lock); callees invoked under the lock must be entirely nonblocking.
func analyseBlocking(as AnalysisSpec, funcs []*FuncResult, work string, timeout time.Duration, underLock bool) *AnalysisResult {
	ar := &AnalysisResult{Name: as.Name}
	allow := map[string]bool{}
	for _, a := range strings.Split(as.Args["allow"], ",") {
		if a = strings.TrimSpace(a); a != "" {
			allow[a] = true
		}
	}
	blockingExt := map[string]bool{}
	for _, a := range strings.Split(as.Args["blocking_externals"], ",") {
		if a = strings.TrimSpace(a); a != "" {
			blockingExt[a] = true
		}
	}
	type verdict struct {
		ok      bool
		why     string
		ms      int64
		backend map[string]bool
		details []string
	}
	memo := map[string]*verdict{}
	lockClass := func(k string) string {
		if i := strings.Index(k, "@"); i >= 0 {
			return k[:i]
		}
		return k
	}
	var evalH func(key string, stack []string, top bool, inherited []string) *verdict
	eval := func(key string, stack []string, top bool) *verdict { return evalH(key, stack, top, nil) }
	evalH = func(key string, stack []string, top bool, inherited []string) *verdict {
		mkey := key + "|" + strings.Join(inherited, ",")
		if v, ok := memo[mkey]; ok && !(top && underLock) {
			return v
		}
		for _, s := range stack {
			if s == key {
				return &verdict{ok: true} // recursion: decided by the other events of the cycle
			}
		}
		v := &verdict{ok: true, backend: map[string]bool{"ssa-walker": true}}
		fr := findFunc(funcs, key)
		if fr == nil || fr.Unsupported != "" {
			v.ok, v.why = false, "callee "+key+" is not verified in this run"
			memo[key] = v
			return v
		}
		seen := map[string]bool{}
		fail := func(why string) {
			if v.ok {
				v.ok, v.why = false, why
			}
		}
		for _, pe := range fr.PathEnds {
			for ei, ev := range pe.S.Trace {
				desc := ev.Kind + ":" + ev.What
				site := ev.Pos + " " + desc
				if allow[desc] {
					continue
				}
				if top && underLock && len(ev.Held) == 0 {
					continue
				}
				// lock classes held at this event: the caller's plus this function's own
				heldNow := append([]string{}, inherited...)
				for _, h := range ev.Held {
					heldNow = append(heldNow, lockClass(h))
				}
				sort.Strings(heldNow)
				switch ev.Kind {
				case "lock":
					for _, h := range inherited {
						if h == lockClass(ev.What) {
							fail("acquires " + lockClass(ev.What) + " at " + ev.Pos + " while a caller already holds a lock of that class (self-deadlock)")
						}
					}
				case "send":
					if seen[site+"ok"] {
						continue
					}
					n, _ := strconv.Atoi(ev.Extra["lines"])
					q := &Query{Lines: pe.S.Lines[:n], Goal: ev.Extra["room"]}
					sr := Solve(work, fmt.Sprintf("%s.nonblocking.%d.%d", key, pe.S.PathID, ei), fr.Engine.assemble(q, true), timeout, "")
					v.ms += sr.Ms
					if sr.Result == "unsat" {
						v.backend[sr.Solver] = true
						v.details = append(v.details, site+": room proven")
					} else {
						fail("send on a channel without proven room at " + ev.Pos + " (" + sr.Result + ")")
					}
				case "recv":
					fail("channel receive at " + ev.Pos)
				case "select":
					if ev.Blocking {
						fail("select without default at " + ev.Pos)
					}
				case "sleep", "wait":
					fail(desc + " at " + ev.Pos)
				case "call":
					if seen[site+strings.Join(heldNow, ",")] {
						continue
					}
					seen[site+strings.Join(heldNow, ",")] = true
					switch {
					case ev.Extra["inlined"] != "":
						// the callee's own events follow in this trace
					case ev.Blocking || blockingExt[ev.What]:
						fail("blocking external call " + ev.What + " at " + ev.Pos)
					case ev.Extra["trusted"] != "" && findFunc(funcs, ev.What) == nil:
						// external / trusted contract not marked blocking: assumed not to block (listed)
					case strings.HasPrefix(ev.What, "func value"):
						v.details = append(v.details, site+": user callback (assumed: "+as.Args["callbacks"]+")")
						if as.Args["callbacks"] == "" {
							fail("call of a function value at " + ev.Pos)
						}
					case findFunc(funcs, ev.What) != nil:
						cv := evalH(ev.What, append(stack, key), false, heldNow)
						v.ms += cv.ms
						if !cv.ok {
							fail("calls " + ev.What + " at " + ev.Pos + " which may block: " + cv.why)
						}
					case strings.HasPrefix(ev.What, "lib."):
						// interface method of the module: every verified implementation with that method name
						m := ev.What[strings.LastIndex(ev.What, "."):]
						found := false
						for _, f := range funcs {
							if strings.HasSuffix(f.Key, m) && f.Key != ev.What && strings.Count(f.Key, ".") == 2 {
								found = true
								cv := evalH(f.Key, append(stack, key), false, heldNow)
								v.ms += cv.ms
								if !cv.ok {
									fail("calls " + ev.What + " (implementation " + f.Key + ") at " + ev.Pos + " which may block: " + cv.why)
								}
							}
						}
						if !found {
							fail("calls " + ev.What + " at " + ev.Pos + ": no verified implementation")
						}
					}
				}
			}
		}
		if !(top && underLock) {
			memo[mkey] = v
		}
		return v
	}
	for _, key := range as.Functions {
		v := eval(key, nil, true)
		kind, desc := "nonblocking", "no potentially blocking instruction on any path, bottom-up through calls"
		if underLock {
			kind, desc = "no-block-under-lock", "no potentially blocking instruction while a lock is held"
		}
		o := &OblResult{Name: key + "/" + kind, Kind: kind, Func: key, Desc: desc, Result: "discharged", Ms: v.ms}
		var bs []string
		for b := range v.backend {
			bs = append(bs, b)
		}
		sort.Strings(bs)
		o.Backend = strings.Join(bs, ",")
		if !v.ok {
			o.Result, o.Why = "failed", v.why
		}
		ar.Obls = append(ar.Obls, o)
		for _, d := range v.details {
			ar.Details = append(ar.Details, key+": "+d)
		}
	}
	ar.Summary = fmt.Sprintf("%d functions checked for the nonblocking effect", len(as.Functions))
	return ar
}

func init() {
	analyses["container-writers"] = analyseContainerWriters
}

// analyseContainerWriters: every function of the module that may write an element into a container
// field carrying an element invariant must be among the verified functions (where the write is an
// obligation). Over-approximation: a function is a writer if it takes the address of the field and
// contains a map update / send / append on a value of the field's type.
func analyseContainerWriters(as AnalysisSpec, progs []*Program, cs *Contracts, funcs []*FuncResult, work string, timeout time.Duration) *AnalysisResult {
	ar := &AnalysisResult{Name: as.Name}
	var keys []string
	for k := range cs.Containers {
		keys = append(keys, k)
	}
	sort.Strings(keys)
	verified := map[string]bool{}
	for _, f := range funcs {
		if f.Unsupported == "" {
			verified[f.Key] = true
		}
	}
	only := map[string]bool{}
	for _, k := range as.List {
		only[k] = true
	}
	for _, key := range keys {
		if len(only) > 0 && !only[key] {
			continue
		}
		i := strings.LastIndex(key, ".")
		skey, field := key[:i], key[i+1:]
		for _, p := range progs {
			for _, fn := range p.All {
				touches := false
				var ft types.Type
				for _, b := range fn.Blocks {
					for _, in := range b.Instrs {
						if fa, ok := in.(*ssa.FieldAddr); ok {
							st := deref(fa.X.Type())
							if structKey(st) == skey && st.Underlying().(*types.Struct).Field(fa.Field).Name() == field {
								touches = true
								ft = st.Underlying().(*types.Struct).Field(fa.Field).Type()
							}
						}
					}
				}
				if !touches {
					continue
				}
				writes := false
				for _, b := range fn.Blocks {
					for _, in := range b.Instrs {
						switch x := in.(type) {
						case *ssa.MapUpdate:
							writes = writes || types.Identical(x.Map.Type(), ft)
						case *ssa.Send:
							writes = writes || types.Identical(x.Chan.Type(), ft)
						case *ssa.Call:
							if b, ok := x.Call.Value.(*ssa.Builtin); ok && b.Name() == "close" && strings.Contains(cs.Containers[key], "open") && types.Identical(x.Call.Args[0].Type(), ft) {
								ar.Obls = append(ar.Obls, &OblResult{Name: p.FuncKey(fn) + "/container-open:" + key, Kind: "container-writer", Func: p.FuncKey(fn), Backend: "ssa-walker", Result: "failed", Why: "channel field declared never-closed is closed at " + p.Pos(x.Pos())})
							}
						case *ssa.Select:
							for _, st := range x.States {
								if st.Dir == types.SendOnly && types.Identical(st.Chan.Type(), ft) {
									writes = true
								}
							}
						}
					}
				}
				if !writes {
					continue
				}
				fk := p.FuncKey(fn)
				o := &OblResult{Name: fk + "/container-writer:" + key, Kind: "container-writer", Func: fk, Desc: "writer of " + key + " is verified against its element invariant", Backend: "ssa-walker", Result: "discharged"}
				if !verified[fk] {
					o.Result = "failed"
					o.Why = "function writes elements into " + key + " but is not under contract"
				}
				ar.Obls = append(ar.Obls, o)
				ar.Details = append(ar.Details, fk+" writes "+key)
			}
		}
	}
	ar.Summary = fmt.Sprintf("%d container invariants, %d writer functions", len(keys), len(ar.Obls))
	return ar
}

func init() {
	analyses["typeinv-encapsulation"] = analyseTypeInvEncapsulation
}

// analyseTypeInvEncapsulation: the fields of a type with an object invariant are touched only by the
// type's own methods and by functions declared "constructs <type>"; every such function must be
// verified (so the invariant is really re-established at each return).
func analyseTypeInvEncapsulation(as AnalysisSpec, progs []*Program, cs *Contracts, funcs []*FuncResult, work string, timeout time.Duration) *AnalysisResult {
	ar := &AnalysisResult{Name: as.Name}
	verified := map[string]bool{}
	for _, f := range funcs {
		if f.Unsupported == "" {
			verified[f.Key] = true
		}
	}
	var keys []string
	for k := range cs.TypeInvs {
		keys = append(keys, k)
	}
	sort.Strings(keys)
	for _, tk := range keys {
		for _, p := range progs {
			for _, fn := range p.All {
				touches := false
				for _, b := range fn.Blocks {
					for _, in := range b.Instrs {
						if fa, ok := in.(*ssa.FieldAddr); ok && structKey(deref(fa.X.Type())) == tk {
							touches = true
						}
					}
				}
				if !touches {
					continue
				}
				fk := p.FuncKey(fn)
				root := fn
				for root.Parent() != nil {
					root = root.Parent()
				}
				inside := root.Signature.Recv() != nil && structKey(deref(root.Signature.Recv().Type())) == tk
				if ct := cs.Funcs[p.FuncKey(root)]; ct != nil && ct.Flags["constructs"] == tk {
					inside = true
				}
				o := &OblResult{Name: fk + "/typeinv-encapsulation:" + tk, Kind: "typeinv-encapsulation", Func: fk, Backend: "ssa-walker", Result: "discharged", Desc: "fields of " + tk + " are accessed only by its verified methods/constructors"}
				if inside && !verified[fk] && privateHelperOf(p, fn, tk, cs) {
					o.Desc += " (unexported helper without contract, called only by methods of the type: verified inlined in its callers)"
					ar.Obls = append(ar.Obls, o)
					continue
				}
				if !inside {
					o.Result, o.Why = "failed", "function outside the type accesses its fields directly"
				} else if !verified[fk] {
					o.Result, o.Why = "failed", "method/constructor of the type is not verified against the invariant"
				}
				ar.Obls = append(ar.Obls, o)
			}
		}
	}
	ar.Summary = fmt.Sprintf("%d types with object invariants", len(keys))
	return ar
}

func init() {
	analyses["exit-condition"] = analyseExitCondition
}

// analyseExitCondition: a worker loop may return only for the stated reasons. For every return path of
// each listed function the last channel receive / select on that path must have ended in one of the
// allowed ways. args[<function key>] = comma list of allowed outcomes: "sel=K" (select case K fired),
// "sel=K:closed" (case K fired on a closed channel), "closed" (plain receive saw a closed channel),
// "none" (path has no channel operation at all: e.g. early error return before the loop).
func analyseExitCondition(as AnalysisSpec, progs []*Program, cs *Contracts, funcs []*FuncResult, work string, timeout time.Duration) *AnalysisResult {
	ar := &AnalysisResult{Name: as.Name}
	var keys []string
	for k := range as.Args {
		keys = append(keys, k)
	}
	sort.Strings(keys)
	for _, key := range keys {
		fr := findFunc(funcs, key)
		o := &OblResult{Name: key + "/exit-condition", Kind: "exit-condition", Func: key, Desc: "the loop is left only when: " + as.Args[key], Result: "discharged", Backend: "ssa-walker"}
		ar.Obls = append(ar.Obls, o)
		if fr == nil || fr.Unsupported != "" {
			o.Result, o.Why = "undecided", "function not verified"
			continue
		}
		allowed := strings.Split(as.Args[key], ",")
		nret := 0
		for _, pe := range fr.PathEnds {
			if pe.Kind != "return" {
				continue
			}
			nret++
			var last *Event
			for i := range pe.S.Trace {
				ev := &pe.S.Trace[i]
				if ev.Kind == "select" || ev.Kind == "recv" {
					last = ev
				}
			}
			var alts []string
			for _, a := range allowed {
				a = strings.TrimSpace(a)
				switch {
				case a == "none":
					if last == nil {
						alts = append(alts, "true")
					}
				case a == "closed":
					if last != nil && last.Kind == "recv" && last.Extra["ok"] != "" {
						alts = append(alts, not(last.Extra["ok"]))
					}
				case strings.HasPrefix(a, "sel="):
					if last != nil && last.Kind == "select" {
						parts := strings.Split(a[4:], ":")
						t := eq(last.Extra["idx"], parts[0])
						if len(parts) > 1 && parts[1] == "closed" {
							t = and(t, not(last.Extra["ok"]))
						}
						alts = append(alts, t)
					}
				}
			}
			goal := or(alts...)
			if goal == "true" {
				continue
			}
			q := &Query{Lines: pathLines(pe), Goal: goal}
			sr := Solve(work, fmt.Sprintf("%s.exitcond.%d", key, pe.S.PathID), fr.Engine.assemble(q, true), timeout, "")
			o.Ms += sr.Ms
			o.Queries++
			if sr.Result == "unsat" {
				if !strings.Contains(o.Backend, sr.Solver) {
					o.Backend += "," + sr.Solver
				}
				continue
			}
			where := "?"
			if last != nil {
				where = last.Pos
			}
			o.Result = "failed"
			o.Why = fmt.Sprintf("a return is reachable after the channel operation at %s ended in a way that is not allowed (%s)", where, sr.Result)
			o.FailQ = q
			o.Raw = sr.Raw
		}
		ar.Details = append(ar.Details, fmt.Sprintf("%s: %d return paths checked against {%s}", key, nret, as.Args[key]))
	}
	ar.Summary = fmt.Sprintf("%d worker loops checked for their exit condition", len(keys))
	return ar
}

func init() {
	analyses["immutable-fields"] = analyseImmutableFields
}

// analyseImmutableFields: a field declared immutable is stored to only on an object allocated in the
// same function body (i.e. while it is being constructed), anywhere in the module.
func analyseImmutableFields(as AnalysisSpec, progs []*Program, cs *Contracts, funcs []*FuncResult, work string, timeout time.Duration) *AnalysisResult {
	ar := &AnalysisResult{Name: as.Name}
	var keys []string
	for k := range cs.Immutable {
		keys = append(keys, k)
	}
	sort.Strings(keys)
	// list entries "pkg.T.field:pkg.T.Setup": Setup may also store the field, provided nothing in the
	// loaded packages calls Setup (it is an entry point that runs before the methods relying on the
	// field's stability, never during them).
	allowed := map[string]string{}
	for _, l := range as.List {
		if i := strings.Index(l, ":"); i > 0 {
			allowed[l[:i]] = l[i+1:]
		}
	}
	for _, key := range keys {
		if pf := as.Args["prefix"]; pf != "" && !strings.HasPrefix(key, pf) {
			continue
		}
		i := strings.LastIndex(key, ".")
		skey, field := key[:i], key[i+1:]
		if setup := allowed[key]; setup != "" {
			so := &OblResult{Name: "module/immutable-setup:" + key, Kind: "immutable-field", Func: setup, Backend: "ssa-walker", Result: "discharged", Desc: "the one method allowed to set the field after construction is an entry point: nothing in the loaded packages calls it"}
			seen := false
			for _, p := range progs {
				for _, fn := range p.All {
					if p.FuncKey(fn) == setup {
						seen = true
					}
					for _, b := range fn.Blocks {
						for _, in := range b.Instrs {
							ci, ok := in.(ssa.CallInstruction)
							if !ok {
								continue
							}
							if cal := ci.Common().StaticCallee(); cal != nil && p.FuncKey(cal) == setup {
								so.Result, so.Why = "failed", setup+" is called from "+p.FuncKey(fn)+" at "+p.Pos(in.Pos())
							}
							for _, a := range ci.Common().Args {
								if f, ok := a.(*ssa.Function); ok && p.FuncKey(f) == setup {
									so.Result, so.Why = "failed", setup+" is passed as a value in "+p.FuncKey(fn)
								}
							}
						}
					}
				}
			}
			if !seen {
				so.Result, so.Why = "failed", "setup method "+setup+" not found"
			}
			ar.Obls = append(ar.Obls, so)
		}
		o := &OblResult{Name: "module/immutable:" + key, Kind: "immutable-field", Func: key, Backend: "ssa-walker", Result: "discharged", Desc: "field is written only during construction of its object"}
		found := false
		for _, p := range progs {
			for _, fn := range p.All {
				for _, b := range fn.Blocks {
					for _, in := range b.Instrs {
						fa, ok := in.(*ssa.FieldAddr)
						if !ok {
							continue
						}
						st := deref(fa.X.Type())
						if structKey(st) != skey || st.Underlying().(*types.Struct).Field(fa.Field).Name() != field {
							continue
						}
						found = true
						if fa.Referrers() == nil {
							continue
						}
						for _, r := range *fa.Referrers() {
							switch x := r.(type) {
							case *ssa.Store:
								if x.Addr != ssa.Value(fa) {
									o.Result, o.Why = "failed", "address of the field is stored at "+p.Pos(x.Pos())
									continue
								}
								if _, isAlloc := fa.X.(*ssa.Alloc); !isAlloc && p.FuncKey(fn) != allowed[key] {
									o.Result, o.Why = "failed", "field written after construction at "+p.Pos(x.Pos())+" in "+p.FuncKey(fn)
								}
							case *ssa.UnOp, *ssa.DebugRef:
							default:
								o.Result, o.Why = "failed", "address of the field escapes at "+p.Pos(r.Pos())+" in "+p.FuncKey(fn)
							}
						}
					}
				}
			}
		}
		if !found && strings.HasPrefix(skey, "lib.") {
			o.Result, o.Why = "failed", "field not found in the module"
		}
		ar.Obls = append(ar.Obls, o)
	}
	ar.Summary = fmt.Sprintf("%d immutable fields", len(keys))
	return ar
}

func init() {
	analyses["methodset"] = analyseMethodSet
}

// analyseMethodSet: every method in the method set of *T that can change the state the object
// invariant speaks about must be declared on T itself (and is then verified against the invariant);
// a state-changing method merely promoted from an embedded type bypasses the invariant.
// args["type"] = "lib.TMemoryOutputBuffer"; list = keys of embedded-type methods that change the state.
func analyseMethodSet(as AnalysisSpec, progs []*Program, cs *Contracts, funcs []*FuncResult, work string, timeout time.Duration) *AnalysisResult {
	ar := &AnalysisResult{Name: as.Name}
	tk := as.Args["type"]
	growers := map[string]bool{}
	for _, g := range as.List {
		growers[g] = true
	}
	verified := map[string]bool{}
	for _, f := range funcs {
		if f.Unsupported == "" {
			verified[f.Key] = true
		}
	}
	for _, p := range progs {
		i := strings.LastIndex(tk, ".")
		var T types.Type
		for _, pk := range p.OwnPackages() {
			if PkgShort(pk.PkgPath) == tk[:i] {
				if obj := pk.Types.Scope().Lookup(tk[i+1:]); obj != nil {
					T = obj.Type()
				}
			}
		}
		if T == nil {
			continue
		}
		ms := types.NewMethodSet(types.NewPointer(T))
		for k := 0; k < ms.Len(); k++ {
			sel := ms.At(k)
			fn := sel.Obj().(*types.Func)
			recv := fn.Type().(*types.Signature).Recv().Type()
			declKey := structKey(deref(recv)) + "." + fn.Name()
			o := &OblResult{Name: tk + "/methodset:" + fn.Name(), Kind: "methodset", Func: tk, Backend: "ssa-walker", Result: "discharged", Desc: "method " + fn.Name() + " of *" + tk + " cannot bypass the object invariant"}
			if structKey(deref(recv)) == tk {
				if m := p.Funcs[declKey]; m != nil && !verified[declKey] && privateHelperOf(p, m, tk, cs) {
					ar.Obls = append(ar.Obls, o)
					continue
				}
				if !verified[declKey] {
					o.Result, o.Why = "failed", "method declared on the type is not verified against the invariant"
				}
			} else if growers[declKey] {
				o.Result, o.Why = "failed", "state-changing method "+declKey+" is promoted into the method set unchecked"
			}
			ar.Obls = append(ar.Obls, o)
		}
	}
	if len(ar.Obls) == 0 {
		ar.Obls = append(ar.Obls, &OblResult{Name: tk + "/methodset", Kind: "methodset", Result: "failed", Why: "type not found"})
	}
	ar.Summary = fmt.Sprintf("method set of *%s: %d methods", tk, len(ar.Obls))
	return ar
}

func init() {
	analyses["fold-sanity"] = analyseFoldSanity
}

// analyseFoldSanity: the ground axiom instances used for map sums assume non-negative weights; prove
// it for every declared fold (for arbitrary key and value; strings have non-negative length).
func analyseFoldSanity(as AnalysisSpec, progs []*Program, cs *Contracts, funcs []*FuncResult, work string, timeout time.Duration) *AnalysisResult {
	ar := &AnalysisResult{Name: as.Name}
	var names []string
	for n := range cs.Folds {
		names = append(names, n)
	}
	sort.Strings(names)
	for _, n := range names {
		f := cs.Folds[n]
		o := &OblResult{Name: "fold/" + n + "/nonneg", Kind: "fold-nonneg", Func: "fold " + n, Desc: "weight " + f.Body.Text + " is non-negative", Result: "discharged"}
		ar.Obls = append(ar.Obls, o)
		if f.KType != "string" || f.VType != "string" || len(progs) == 0 || len(progs[0].All) == 0 {
			o.Result, o.Why = "undecided", "only string->string folds are supported"
			continue
		}
		e := NewEngine(progs[0], cs, progs[0].All[0], &CheckConfig{})
		s := &State{Decl: map[string]bool{}, Heap: map[string]string{}, Ghost: map[string]string{}}
		s.Frames = []*Frame{{Fn: progs[0].All[0]}}
		k := e.declare(s, "k", "Str")
		v := e.declare(s, "v", "Str")
		s.assume(and(app(">=", app("slen", k), "0"), app(">=", app("slen", v), "0")))
		c := &SpecCtx{Fn: progs[0].All[0], Params: map[string]*Val{}, PTypes: map[string]types.Type{}, Bound: map[string]*SV{}}
		c.Bound[f.KName] = &SV{V: &Val{L: []string{k}}, Sort: "Str", T: types.Typ[types.String]}
		c.Bound[f.VName] = &SV{V: &Val{L: []string{v}}, Sort: "Str", T: types.Typ[types.String]}
		w := e.evalTerm(s, c, f.Body.Expr)
		q := &Query{Lines: s.Lines, Goal: app(">=", w, "0")}
		sr := Solve(work, "fold."+n, e.assemble(q, true), timeout, "")
		o.Ms, o.Backend, o.Queries = sr.Ms, sr.Solver, 1
		if sr.Result != "unsat" {
			o.Result, o.Why = "failed", "weight may be negative ("+sr.Result+")"
		}
	}
	ar.Summary = fmt.Sprintf("%d folds", len(names))
	return ar
}

func init() {
	analyses["atomic-global"] = analyseAtomicGlobal
}

// analyseAtomicGlobal: a package-level counter is touched only as the operand of sync/atomic calls and
// only in the listed functions, anywhere in the module. args["global"]="lib.nextOpID", list = functions.
func analyseAtomicGlobal(as AnalysisSpec, progs []*Program, cs *Contracts, funcs []*FuncResult, work string, timeout time.Duration) *AnalysisResult {
	ar := &AnalysisResult{Name: as.Name}
	gname := as.Args["global"]
	allowed := map[string]bool{}
	for _, f := range as.List {
		allowed[f] = true
	}
	o := &OblResult{Name: "module/atomic-only:" + gname, Kind: "atomic-only", Func: gname, Backend: "ssa-walker", Result: "discharged", Desc: gname + " is accessed only through sync/atomic, only in " + strings.Join(as.List, ", ")}
	uses := 0
	for _, p := range progs {
		for _, fn := range p.All {
			for _, b := range fn.Blocks {
				for _, in := range b.Instrs {
					for _, op := range in.Operands(nil) {
						g, ok := (*op).(*ssa.Global)
						if !ok || g.Pkg == nil || PkgShort(g.Pkg.Pkg.Path())+"."+g.Name() != gname {
							continue
						}
						uses++
						fk := p.FuncKey(fn)
						call, isCall := in.(*ssa.Call)
						atomicCall := false
						if isCall {
							if sc := call.Call.StaticCallee(); sc != nil && sc.Pkg != nil && sc.Pkg.Pkg.Path() == "sync/atomic" {
								atomicCall = true
								// only single-step read-modify-write operations keep the counter's history linear
								if ops := as.Args["ops"]; ops != "" {
									okOp := false
									for _, op := range strings.Split(ops, ",") {
										if strings.TrimSpace(op) == sc.Name() {
											okOp = true
										}
									}
									if !okOp {
										o.Result, o.Why = "failed", "atomic operation "+sc.Name()+" at "+p.Pos(in.Pos())+" is not one of the allowed single-step operations ("+ops+")"
									}
								}
							}
						}
						if !atomicCall {
							o.Result, o.Why = "failed", "non-atomic access at "+p.Pos(in.Pos())+" in "+fk
						} else if !allowed[fk] {
							o.Result, o.Why = "failed", "access outside the listed functions at "+p.Pos(in.Pos())+" in "+fk
						}
					}
				}
			}
		}
	}
	if uses == 0 {
		o.Result, o.Why = "failed", "global not found"
	}
	ar.Obls = append(ar.Obls, o)
	ar.Summary = fmt.Sprintf("%d uses of %s", uses, gname)
	return ar
}

func init() {
	analyses["guard-coverage"] = analyseGuardCoverage
}

// analyseGuardCoverage: every function of the module that takes the address of a guarded field of the
// given struct is verified in this run, so that its accesses are guarded-access obligations.
func analyseGuardCoverage(as AnalysisSpec, progs []*Program, cs *Contracts, funcs []*FuncResult, work string, timeout time.Duration) *AnalysisResult {
	ar := &AnalysisResult{Name: as.Name}
	sk := as.Args["struct"]
	guarded := map[string]bool{}
	for _, g := range cs.Guards {
		if g.Struct == sk {
			for _, f := range g.Fields {
				guarded[f] = true
			}
		}
	}
	verified := map[string]bool{}
	for _, f := range funcs {
		if f.Unsupported == "" {
			verified[f.Key] = true
		}
	}
	for _, p := range progs {
		for _, fn := range p.All {
			touches := ""
			for _, b := range fn.Blocks {
				for _, in := range b.Instrs {
					if fa, ok := in.(*ssa.FieldAddr); ok {
						st := deref(fa.X.Type())
						if structKey(st) == sk && guarded[st.Underlying().(*types.Struct).Field(fa.Field).Name()] {
							touches = st.Underlying().(*types.Struct).Field(fa.Field).Name()
						}
					}
				}
			}
			if touches == "" {
				continue
			}
			fk := p.FuncKey(fn)
			o := &OblResult{Name: fk + "/guard-coverage:" + sk, Kind: "guarded-access", Func: fk, Backend: "ssa-walker", Result: "discharged", Desc: "accessor of guarded field " + sk + "." + touches + " is verified"}
			if !verified[fk] && cs.Funcs[fk] == nil && InlinedEverywhere(p, fn) && callersVerified(p, fn, verified, 0) {
				o.Desc += " (inside each of its verified callers)"
			} else if !verified[fk] {
				o.Result, o.Why = "failed", "function touches guarded field "+touches+" but is not verified"
			}
			ar.Obls = append(ar.Obls, o)
		}
	}
	if len(guarded) == 0 {
		ar.Obls = append(ar.Obls, &OblResult{Name: sk + "/guard-coverage", Kind: "guarded-access", Result: "failed", Why: "no guard declared for " + sk})
	}
	ar.Summary = fmt.Sprintf("%d accessor functions of %s", len(ar.Obls), sk)
	return ar
}

// checkNoEscape: the contract flag "noescape" promises that no pointer parameter (receiver included)
// is retained: it is only dereferenced, compared, returned, or passed on to callees that make the same
// promise. Decided on the SSA of the function body.
func checkNoEscape(e *Engine) (bool, string) {
	fn := e.Fn
	derived := map[ssa.Value]bool{}
	for _, p := range fn.Params {
		if isRefLike(p.Type()) {
			derived[p] = true
		}
	}
	spill := map[*ssa.Alloc]bool{}
	changed := true
	for changed {
		changed = false
		for _, b := range fn.Blocks {
			for _, in := range b.Instrs {
				switch x := in.(type) {
				case *ssa.Store:
					if al, ok := x.Addr.(*ssa.Alloc); ok && derived[x.Val] && !spill[al] && !e.allocEscapes(al) {
						spill[al] = true
						changed = true
					}
				case *ssa.UnOp:
					if al, ok := x.X.(*ssa.Alloc); ok && x.Op == token.MUL && spill[al] && !derived[x] {
						derived[x] = true
						changed = true
					}
				case *ssa.MakeInterface:
					if derived[x.X] && !derived[x] {
						derived[x] = true
						changed = true
					}
				case *ssa.ChangeInterface:
					if derived[x.X] && !derived[x] {
						derived[x] = true
						changed = true
					}
				case *ssa.ChangeType:
					if derived[x.X] && !derived[x] {
						derived[x] = true
						changed = true
					}
				}
			}
		}
	}
	for _, b := range fn.Blocks {
		for _, in := range b.Instrs {
			for _, op := range in.Operands(nil) {
				if *op == nil || !derived[*op] {
					continue
				}
				switch x := in.(type) {
				case *ssa.Store:
					if al, ok := x.Addr.(*ssa.Alloc); ok && (spill[al] || !e.allocEscapes(al)) {
						continue
					}
					return false, "parameter stored at " + e.P.Pos(in.Pos())
				case *ssa.UnOp, *ssa.FieldAddr, *ssa.Return, *ssa.BinOp, *ssa.MakeInterface, *ssa.ChangeInterface, *ssa.ChangeType, *ssa.TypeAssert, *ssa.DebugRef, *ssa.If:
					continue
				case *ssa.Call:
					var key string
					if x.Call.IsInvoke() {
						key = ifaceMethodKey(x.Common())
					} else if sc := x.Call.StaticCallee(); sc != nil {
						if sc.Pkg != nil && strings.HasPrefix(sc.Pkg.Pkg.Path(), e.P.ModPrefix) {
							key = e.P.FuncKey(sc)
						} else {
							key = calleeKeyExternal(sc)
						}
					}
					if ct := e.C.Funcs[key]; ct != nil {
						if ct.Flag("noescape") {
							continue
						}
						if tgt, ok := ct.Flags["same_as"]; ok {
							if tc := e.C.Funcs[tgt]; tc != nil && tc.Flag("noescape") {
								continue
							}
						}
					}
					if _, isExt := extStatic[key]; isExt || isPureExternal(key) {
						continue
					}
					return false, "parameter passed to " + key + " (no noescape contract) at " + e.P.Pos(in.Pos())
				default:
					return false, fmt.Sprintf("parameter used by %T at %s", in, e.P.Pos(in.Pos()))
				}
			}
		}
	}
	return true, ""
}

// privateHelperOf: fn is an unexported, non-recursive method of type tk without a contract whose every
// caller in the module is a method of tk.
func privateHelperOf(p *Program, fn *ssa.Function, tk string, cs *Contracts) bool {
	if fn.Signature.Recv() == nil || ast.IsExported(fn.Name()) || p.Recursive(fn) {
		return false
	}
	if cs.Funcs[p.FuncKey(fn)] != nil {
		return false
	}
	callers := 0
	for _, g := range p.All {
		for _, b := range g.Blocks {
			for _, in := range b.Instrs {
				var c *ssa.CallCommon
				switch x := in.(type) {
				case *ssa.Call:
					c = x.Common()
				case *ssa.Go:
					c = x.Common()
				case *ssa.Defer:
					c = x.Common()
				}
				if c == nil || c.StaticCallee() != fn {
					continue
				}
				root := g
				for root.Parent() != nil {
					root = root.Parent()
				}
				if root.Signature.Recv() == nil || structKey(deref(root.Signature.Recv().Type())) != tk {
					return false
				}
				callers++
			}
		}
	}
	return callers > 0
}

func init() {
	analyses["timed-wait"] = analyseTimedWait
	analyses["paired-calls"] = analysePairedCalls
	analyses["chan-confinement"] = analyseChanConfinement
}

// timerArm: is the channel operand of a select case a timer built from the call's FContext timeout?
// Accepted shapes: ctx.Done() where ctx is the first result of ToContext(fctx); time.After(fctx.Timeout()).
func timerArm(fn *ssa.Function, ch ssa.Value) (bool, string) {
	// the channel may have been kept in a local that is assigned exactly once (deadlineC := ctx.Done())
	for i := 0; i < 3; i++ {
		u, isLoad := ch.(*ssa.UnOp)
		if !isLoad || u.Op != token.MUL {
			break
		}
		al, isAl := u.X.(*ssa.Alloc)
		if !isAl || al.Referrers() == nil {
			break
		}
		var stored ssa.Value
		n := 0
		for _, r := range *al.Referrers() {
			if st, isSt := r.(*ssa.Store); isSt && st.Addr == ssa.Value(al) {
				stored = st.Val
				n++
			}
		}
		if n != 1 {
			break
		}
		ch = stored
	}
	if ct, isCT := ch.(*ssa.ChangeType); isCT {
		ch = ct.X
	}
	call, ok := ch.(*ssa.Call)
	if !ok {
		return false, ""
	}
	fctx := func(v ssa.Value) bool {
		// the FContext parameter of the function, possibly reloaded from its spill slot
		for {
			switch x := v.(type) {
			case *ssa.Parameter:
				return strings.HasSuffix(x.Type().String(), ".FContext")
			case *ssa.UnOp:
				if al, ok := x.X.(*ssa.Alloc); ok && x.Op == token.MUL {
					for _, p := range fn.Params {
						if al.Comment == p.Name() && strings.HasSuffix(p.Type().String(), ".FContext") {
							return true
						}
					}
				}
				return false
			default:
				return false
			}
		}
	}
	load := func(v ssa.Value) ssa.Value {
		// look through a load from a local that is stored exactly once
		u, ok := v.(*ssa.UnOp)
		if !ok || u.Op != token.MUL {
			return v
		}
		al, ok := u.X.(*ssa.Alloc)
		if !ok || al.Referrers() == nil {
			return v
		}
		var stored ssa.Value
		n := 0
		for _, r := range *al.Referrers() {
			if st, ok := r.(*ssa.Store); ok && st.Addr == ssa.Value(al) {
				stored = st.Val
				n++
			}
		}
		if n == 1 {
			return stored
		}
		return v
	}
	if call.Call.IsInvoke() && call.Call.Method.Name() == "Done" {
		x := load(call.Call.Value)
		if ex, ok := x.(*ssa.Extract); ok && ex.Index == 0 {
			if c2, ok := ex.Tuple.(*ssa.Call); ok {
				if sc := c2.Call.StaticCallee(); sc != nil && sc.Name() == "ToContext" && len(c2.Call.Args) == 1 && fctx(c2.Call.Args[0]) {
					return true, "ctx.Done() of ToContext(fctx)"
				}
			}
		}
		return false, ""
	}
	if sc := call.Call.StaticCallee(); sc != nil && sc.Pkg != nil && sc.Pkg.Pkg.Path() == "time" && sc.Name() == "After" {
		d := load(call.Call.Args[0])
		if c2, ok := d.(*ssa.Call); ok && c2.Call.IsInvoke() && c2.Call.Method.Name() == "Timeout" && fctx(c2.Call.Value) {
			return true, "time.After(fctx.Timeout())"
		}
	}
	return false, ""
}

// analyseTimedWait (C13): in each listed function every potentially blocking instruction is a select
// that has a timer arm derived from the FContext's timeout (T1), taking the timer arm returns a
// TIMED_OUT transport error (T2); blocking calls must be on the allow-list (args["allow"]).
func analyseTimedWait(as AnalysisSpec, progs []*Program, cs *Contracts, funcs []*FuncResult, work string, timeout time.Duration) *AnalysisResult {
	ar := &AnalysisResult{Name: as.Name}
	allow := map[string]bool{}
	for _, a := range strings.Split(as.Args["allow"], ",") {
		if a = strings.TrimSpace(a); a != "" {
			allow[a] = true
		}
	}
	for _, key := range as.Functions {
		fr := findFunc(funcs, key)
		o1 := &OblResult{Name: key + "/timed-wait", Kind: "timed-wait", Func: key, Desc: "every blocking instruction is a select with a timer arm built from the FContext timeout", Result: "discharged", Backend: "ssa-walker"}
		o2 := &OblResult{Name: key + "/timeout-error", Kind: "timed-wait", Func: key, Desc: "taking the timer arm returns a TIMED_OUT transport exception", Result: "discharged", Backend: "ssa-walker"}
		ar.Obls = append(ar.Obls, o1, o2)
		if fr == nil || fr.Unsupported != "" {
			o1.Result, o1.Why = "undecided", "function not verified"
			o2.Result, o2.Why = "undecided", "function not verified"
			continue
		}
		timedPaths := 0
		// a mutex that some function holds across slow operations (dial, shutdown) is itself an
		// unbounded wait: the timed function must not acquire it, directly or through a callee
		for _, g := range strings.Split(as.Args["slow_guards"], ",") {
			if g = strings.TrimSpace(g); g == "" {
				continue
			}
			for _, p := range progs {
				if fn := p.Funcs[key]; fn != nil {
					if via := acquiresGuard(p, fn, g, map[*ssa.Function]bool{}); via != "" {
						o1.Result, o1.Why = "failed", "acquires "+g+" ("+via+"), a lock held across slow transport operations, without a timer"
					}
				}
			}
		}
		timedCallees := map[string]bool{}
		for _, a := range strings.Split(as.Args["timed_callees"], ",") {
			if a = strings.TrimSpace(a); a != "" {
				timedCallees[a] = true
			}
		}
		maxWaits, _ := strconv.Atoi(as.Args["max_waits"])
		for _, pe := range fr.PathEnds {
			// one deadline per call: a path may wait (timed select, allowed blocking call, callee that waits
			// under the same timeout) at most max_waits times, otherwise the waits add up beyond the timeout
			if maxWaits > 0 {
				waits := 0
				where := ""
				for _, ev := range pe.S.Trace {
					if ev.Kind == "select" && ev.Blocking || ev.Kind == "call" && ((ev.Blocking || ev.Extra["blocking"] != "") && allow[ev.What] || timedCallees[ev.What]) {
						waits++
						where += " " + ev.Pos
					}
				}
				if waits > maxWaits {
					o1.Result, o1.Why = "failed", fmt.Sprintf("a path waits %d times under the same timeout (at%s): the waits add up beyond the call's timeout", waits, where)
				}
			}
			for _, ev := range pe.S.Trace {
				switch ev.Kind {
				case "recv":
					o1.Result, o1.Why = "failed", "plain channel receive at "+ev.Pos
				case "send":
					if ev.Extra["private"] == "" {
						o1.Result, o1.Why = "failed", "blocking send at "+ev.Pos
					}
				case "sleep", "wait":
					o1.Result, o1.Why = "failed", ev.Kind+" at "+ev.Pos
				case "call":
					if (ev.Blocking || ev.Extra["blocking"] != "") && !allow[ev.What] {
						o1.Result, o1.Why = "failed", "blocking call "+ev.What+" at "+ev.Pos+" is not on the allow-list"
					}
				case "select":
					if !ev.Blocking {
						continue
					}
					sel := ev.Instr.(*ssa.Select)
					arm := -1
					how := ""
					for i, st := range sel.States {
						if st.Dir != types.RecvOnly {
							continue
						}
						if ok, h := timerArm(fr.Fn, st.Chan); ok {
							arm, how = i, h
						}
					}
					if arm < 0 {
						o1.Result, o1.Why = "failed", "select at "+ev.Pos+" has no timer arm derived from the FContext timeout"
						continue
					}
					ar.Details = append(ar.Details, fmt.Sprintf("%s: select at %s, timer arm #%d = %s", key, ev.Pos, arm, how))
					if pe.Kind != "return" || len(pe.Results) == 0 {
						continue
					}
					// T2 on this path: idx == arm => error result is TIMED_OUT
					errv := pe.Results[len(pe.Results)-1]
					goal := implies(eq(ev.Extra["idx"], num(int64(arm))), and(not(eq(errv.L[0], "0")), eq(app("ttype", errv.L[0]), "3")))
					q := &Query{Lines: pathLines(pe), Goal: goal}
					sr := Solve(work, fmt.Sprintf("%s.timeouterr.%d", key, pe.S.PathID), fr.Engine.assemble(q, true), timeout, "")
					o2.Ms += sr.Ms
					o2.Queries++
					timedPaths++
					if sr.Result == "unsat" {
						if !strings.Contains(o2.Backend, sr.Solver) {
							o2.Backend += "," + sr.Solver
						}
					} else {
						o2.Result, o2.Why = "failed", "timer arm at "+ev.Pos+" does not lead to a TIMED_OUT error ("+sr.Result+")"
						o2.FailQ, o2.Raw = q, sr.Raw
					}
				}
			}
		}
		if as.Args["needs_timer"] != "" && timedPaths == 0 && o1.Result == "discharged" {
			o2.Result, o2.Why = "failed", "no path with a timed select found"
		}
	}
	ar.Summary = fmt.Sprintf("%d functions checked for timer-bounded waits", len(as.Functions))
	return ar
}

// analysePairedCalls: on every return path on which args["open"] was called, args["close"] is called
// later with the same argument at index args["arg"] (e.g. Register / Unregister of the same context).
func analysePairedCalls(as AnalysisSpec, progs []*Program, cs *Contracts, funcs []*FuncResult, work string, timeout time.Duration) *AnalysisResult {
	ar := &AnalysisResult{Name: as.Name}
	open, cls := as.Args["open"], as.Args["close"]
	ai, _ := strconv.Atoi(as.Args["arg"])
	for _, key := range as.Functions {
		fr := findFunc(funcs, key)
		o := &OblResult{Name: key + "/paired:" + cls, Kind: "paired-calls", Func: key, Desc: "every return after " + open + " is preceded by " + cls + " of the same argument", Result: "discharged", Backend: "ssa-walker"}
		ar.Obls = append(ar.Obls, o)
		if fr == nil || fr.Unsupported != "" {
			o.Result, o.Why = "undecided", "function not verified"
			continue
		}
		seenOpen := false
		for _, pe := range fr.PathEnds {
			if pe.Kind != "return" {
				continue
			}
			pending := []string{}
			for _, ev := range pe.S.Trace {
				if ev.Kind != "call" || ai >= len(ev.Args) || len(ev.Args[ai].L) == 0 {
					continue
				}
				switch ev.What {
				case open:
					seenOpen = true
					// a failed open (error result constrained non-nil on this path) needs no close
					if as.Args["open_err_result"] != "" {
						ri, _ := strconv.Atoi(as.Args["open_err_result"])
						if ri < len(ev.Rets) && len(ev.Rets[ri].L) == 1 {
							q := &Query{Lines: pathLines(pe), Goal: not(eq(ev.Rets[ri].L[0], "0"))}
							if sr := Solve(work, fmt.Sprintf("%s.paired.%d", key, pe.S.PathID), fr.Engine.assemble(q, true), timeout, ""); sr.Result == "unsat" {
								continue
							}
						}
					}
					pending = append(pending, ev.Args[ai].L[0])
				case cls:
					for i, p := range pending {
						if p == ev.Args[ai].L[0] {
							pending = append(pending[:i], pending[i+1:]...)
							break
						}
					}
				}
			}
			if len(pending) > 0 {
				o.Result, o.Why = "failed", "a return path leaves "+open+" without "+cls
			}
		}
		if !seenOpen {
			o.Result, o.Why = "failed", open+" is never called"
		}
	}
	ar.Summary = fmt.Sprintf("%d functions checked for %s/%s pairing", len(as.Functions), open, cls)
	return ar
}

// analyseChanConfinement (C01): the result channel of a request is made in the activation and flows only
// to the listed uses: the registry's Register call and channel receives of the function itself.
func analyseChanConfinement(as AnalysisSpec, progs []*Program, cs *Contracts, funcs []*FuncResult, work string, timeout time.Duration) *AnalysisResult {
	ar := &AnalysisResult{Name: as.Name}
	local := as.Args["local"]
	okCallee := as.Args["callee"]
	for _, key := range as.Functions {
		o := &OblResult{Name: key + "/chan-confinement:" + local, Kind: "chan-confinement", Func: key, Desc: "channel " + local + " is made here and handed only to " + okCallee + " and to this function's own receives", Result: "discharged", Backend: "ssa-walker"}
		ar.Obls = append(ar.Obls, o)
		var fn *ssa.Function
		for _, p := range progs {
			if f := p.Funcs[key]; f != nil {
				fn = f
			}
		}
		if fn == nil {
			o.Result, o.Why = "failed", "function not found"
			continue
		}
		var al *ssa.Alloc
		for _, b := range fn.Blocks {
			for _, in := range b.Instrs {
				if a, ok := in.(*ssa.Alloc); ok && a.Comment == local {
					al = a
				}
			}
		}
		if al == nil {
			// the local was renamed: identify it by its role - the one local made with make(chan) whose
			// value is handed to the registering callee
			var cands []*ssa.Alloc
			for _, b := range fn.Blocks {
				for _, in := range b.Instrs {
					a, ok := in.(*ssa.Alloc)
					if !ok || a.Referrers() == nil {
						continue
					}
					isMade, handed := false, false
					for _, r := range *a.Referrers() {
						switch x := r.(type) {
						case *ssa.Store:
							if _, ok := x.Val.(*ssa.MakeChan); ok && x.Addr == ssa.Value(a) {
								isMade = true
							}
						case *ssa.UnOp:
							if x.Referrers() == nil {
								continue
							}
							for _, u := range *x.Referrers() {
								if y, ok := u.(*ssa.Call); ok {
									name := ""
									if y.Call.IsInvoke() {
										name = ifaceMethodKey(y.Common())
									} else if sc := y.Call.StaticCallee(); sc != nil {
										name = sc.Name()
									}
									if strings.HasSuffix(name, okCallee) {
										handed = true
									}
								}
							}
						}
					}
					if isMade && handed {
						cands = append(cands, a)
					}
				}
			}
			if len(cands) == 1 {
				al = cands[0]
			}
		}
		if al == nil || al.Referrers() == nil {
			o.Result, o.Why = "failed", "no local channel that is made here and handed to "+okCallee
			continue
		}
		made := false
		for _, r := range *al.Referrers() {
			switch x := r.(type) {
			case *ssa.Store:
				if x.Addr == ssa.Value(al) {
					if mc, ok := x.Val.(*ssa.MakeChan); ok {
						made = true
						// the registry hands a response over without waiting: the channel needs a slot for it
						if c, isConst := mc.Size.(*ssa.Const); !isConst || c.Value == nil || c.Int64() < 1 {
							o.Result, o.Why = "failed", "result channel made without a buffer slot at "+progs[0].Pos(x.Pos())+" (a response dispatched before the caller waits would be dropped)"
						}
					} else {
						o.Result, o.Why = "failed", "assigned from something other than make(chan) at "+progs[0].Pos(x.Pos())
					}
				} else {
					o.Result, o.Why = "failed", "address stored at "+progs[0].Pos(x.Pos())
				}
			case *ssa.UnOp:
				// each load: check its uses
				if x.Referrers() == nil {
					continue
				}
				for _, u := range *x.Referrers() {
					switch y := u.(type) {
					case *ssa.Call:
						name := ""
						if bi, isBuiltin := y.Call.Value.(*ssa.Builtin); isBuiltin && (bi.Name() == "cap" || bi.Name() == "len") {
							continue // asking for its capacity / length hands the channel to nobody
						}
						if y.Call.IsInvoke() {
							name = ifaceMethodKey(y.Common())
						} else if sc := y.Call.StaticCallee(); sc != nil {
							name = sc.Name()
							// an unexported helper that is verified inside this function (inlined everywhere)
							// and only receives from the channel keeps it confined
							if cs.Funcs[progs[0].FuncKey(sc)] == nil && InlinedEverywhere(progs[0], sc) {
								okHelper := true
								for ai, a := range y.Call.Args {
									if a != ssa.Value(x) || ai >= len(sc.Params) {
										continue
									}
									if !onlyReceivedFrom(sc.Params[ai]) {
										okHelper = false
									}
								}
								if okHelper {
									continue
								}
							}
						}
						if !strings.HasSuffix(name, okCallee) {
							o.Result, o.Why = "failed", "passed to "+name+" at "+progs[0].Pos(y.Pos())
						}
					case *ssa.Select:
						for _, st := range y.States {
							if st.Chan == ssa.Value(x) && st.Dir != types.RecvOnly {
								o.Result, o.Why = "failed", "sent on at "+progs[0].Pos(y.Pos())
							}
						}
					case *ssa.UnOp:
						if y.Op != token.ARROW {
							o.Result, o.Why = "failed", "unexpected use at "+progs[0].Pos(y.Pos())
						}
					case *ssa.DebugRef:
					default:
						o.Result, o.Why = "failed", fmt.Sprintf("escapes through %T at %s", u, progs[0].Pos(u.Pos()))
					}
				}
			case *ssa.DebugRef:
			default:
				o.Result, o.Why = "failed", fmt.Sprintf("address used by %T", r)
			}
		}
		if !made && o.Result == "discharged" {
			o.Result, o.Why = "failed", "not created with make(chan) in this function"
		}
	}
	ar.Summary = fmt.Sprintf("%d request functions checked for result-channel confinement", len(as.Functions))
	return ar
}

func pathLines(pe *PathEnd) []string {
	if pe.Lines != nil {
		return pe.Lines
	}
	return pe.S.Lines
}

func init() {
	analyses["per-iteration"] = analysePerIteration
}

// analysePerIteration: in every iteration of the (outermost) loop of each listed function - i.e. on every
// explored path from the loop head back to it - the callee args["callee"] (event kind args["kind"],
// default call; "go" for spawned calls) happens at most once; exactly once unless args["zero_when"] is
// given, in which case it happens zero times exactly on the iterations where one of the ";"-separated
// spec conditions holds (decided by SMT on each path). args["one_also"]: a spec condition that must hold
// at the end of every iteration in which the callee was called (e.g. what its argument is).
func analysePerIteration(as AnalysisSpec, progs []*Program, cs *Contracts, funcs []*FuncResult, work string, timeout time.Duration) *AnalysisResult {
	ar := &AnalysisResult{Name: as.Name}
	callee := as.Args["callee"]
	kind := as.Args["kind"]
	if kind == "" {
		kind = "call"
	}
	parse := func(txt string) []Clause {
		var out []Clause
		for _, t := range strings.Split(txt, ";") {
			if t = strings.TrimSpace(t); t != "" {
				if cl, err := parseClause(t); err == nil {
					out = append(out, cl)
				} else {
					out = append(out, Clause{Text: "PARSE ERROR " + t})
				}
			}
		}
		return out
	}
	zero := parse(as.Args["zero_when"])
	also := parse(as.Args["one_also"])
	iterCond := parse(as.Args["iter_cond"]) // must hold at the end of every iteration (may use iterstart())
	for _, key := range as.Functions {
		fr := findFunc(funcs, key)
		label := callee
		if as.Args["label"] != "" {
			label = as.Args["label"]
		}
		o := &OblResult{Name: key + "/per-iteration:" + label, Kind: "per-iteration", Func: key, Desc: "each loop iteration performs " + kind + " " + callee + " exactly once" + map[bool]string{true: " unless " + as.Args["zero_when"], false: ""}[len(zero) > 0], Result: "discharged", Backend: "ssa-walker"}
		ar.Obls = append(ar.Obls, o)
		if fr == nil || fr.Unsupported != "" {
			o.Result, o.Why = "undecided", "function not verified"
			continue
		}
		e := fr.Engine
		iters := 0
		wantN := 1
		if c := as.Args["count"]; c != "" {
			wantN, _ = strconv.Atoi(c)
		}
		check := func(pe *PathEnd, goal, what string) {
			q := &Query{Lines: pe.S.Lines, Goal: goal}
			sr := Solve(work, fmt.Sprintf("%s.periter.%d", key, pe.S.PathID), e.assemble(q, true), timeout, "")
			o.Ms += sr.Ms
			o.Queries++
			if sr.Result == "unsat" {
				if !strings.Contains(o.Backend, sr.Solver) {
					o.Backend += "," + sr.Solver
				}
				return
			}
			o.Result, o.Why = "failed", what+" ("+sr.Result+")"
			o.FailQ, o.Raw = q, sr.Raw
		}
		for _, pe := range fr.PathEnds {
			if pe.Kind != "loopback" || pe.S.Dead {
				continue
			}
			start := -1
			for i, ev := range pe.S.Trace {
				if ev.Kind == "loophead" {
					start = i
				}
			}
			if start < 0 {
				continue
			}
			if lsel := as.Args["loop"]; lsel != "" && pe.S.Trace[start].What != lsel {
				continue // an iteration of another loop of the function
			}
			iters++
			n := 0
			for _, ev := range pe.S.Trace[start:] {
				if ev.Kind == kind && ev.What == callee {
					n++
				}
			}
			if wantN > 1 {
				// a fixed number of calls per iteration: all of them or (when zero_when allows) none
				if n != wantN && n != 0 {
					o.Result, o.Why = "failed", fmt.Sprintf("an iteration performs %s %d times instead of %d", callee, n, wantN)
				}
				if n == wantN {
					n = 1
				}
			}
			ctx := e.specCtx(pe.S, fr.Fn)
			for _, cl := range iterCond {
				if cl.Expr == nil {
					o.Result, o.Why = "failed", cl.Text
					continue
				}
				func() {
					defer func() {
						if r := recover(); r != nil {
							o.Result, o.Why = "failed", fmt.Sprint("cannot evaluate ", cl.Text, ": ", r)
						}
					}()
					check(pe, e.evalBool(pe.S, ctx, cl.Expr), "at the end of an iteration "+cl.Text+" does not hold")
				}()
			}
			if callee == "" {
				continue
			}
			evalAny := func(cls []Clause) string {
				var alts []string
				for _, cl := range cls {
					if cl.Expr == nil {
						o.Result, o.Why = "failed", cl.Text
						continue
					}
					func() {
						defer func() {
							if r := recover(); r != nil {
								if _, ok := r.(unsupported); ok {
									o.Result, o.Why = "failed", fmt.Sprint("cannot evaluate ", cl.Text)
								}
							}
						}()
						if t, ok := e.tryEvalBool(pe.S, ctx, cl.Expr); ok {
							alts = append(alts, t)
						}
					}()
				}
				return or(alts...)
			}
			switch {
			case n > 1:
				o.Result, o.Why = "failed", fmt.Sprintf("an iteration performs %s %d times", callee, n)
			case n == 0 && len(zero) == 0:
				// only an iteration that can actually happen counts (a defensive branch on a value that
				// the container invariants rule out is not one)
				check(pe, "false", "an iteration does not perform "+callee)
			case n == 0:
				check(pe, evalAny(zero), "an iteration skips "+callee+" although none of the stated reasons holds")
			case n == 1:
				if len(zero) > 0 {
					check(pe, not(evalAny(zero)), "an iteration performs "+callee+" although a reason to skip holds")
				}
				for _, cl := range also {
					if cl.Expr == nil {
						o.Result, o.Why = "failed", cl.Text
						continue
					}
					func() {
						defer func() {
							if r := recover(); r != nil {
								o.Result, o.Why = "failed", fmt.Sprint("cannot evaluate ", cl.Text, ": ", r)
							}
						}()
						check(pe, e.evalBool(pe.S, ctx, cl.Expr), "in an iteration that performs "+callee+": "+cl.Text+" does not hold")
					}()
				}
			}
		}
		if iters == 0 {
			o.Result, o.Why = "failed", "no loop iteration explored"
		}
		ar.Details = append(ar.Details, fmt.Sprintf("%s: %d iteration paths", key, iters))
	}
	ar.Summary = fmt.Sprintf("%d loops checked for exactly-once %s per iteration", len(as.Functions), callee)
	return ar
}

func init() {
	analyses["owned-fields"] = analyseOwnedFields
}

// analyseOwnedFields: each listed field (pkg.Struct.field) holds an object of its own - every store to it,
// anywhere in the loaded packages, stores a value made (make / new / composite literal) in the storing
// function itself, so two objects never share it. A store of a parameter, of another object's field or of
// a global fails. list = fields; nil stores are allowed.
func analyseOwnedFields(as AnalysisSpec, progs []*Program, cs *Contracts, funcs []*FuncResult, work string, timeout time.Duration) *AnalysisResult {
	ar := &AnalysisResult{Name: as.Name}
	var isFresh func(v ssa.Value, depth int) (bool, string)
	isFresh = func(v ssa.Value, depth int) (bool, string) {
		if depth > 4 {
			return false, "value flows through too many locals"
		}
		switch x := v.(type) {
		case *ssa.MakeChan, *ssa.MakeMap, *ssa.MakeSlice:
			return true, ""
		case *ssa.Alloc:
			return x.Heap, "address of a stack cell"
		case *ssa.Const:
			return x.IsNil(), "constant"
		case *ssa.ChangeType:
			return isFresh(x.X, depth+1)
		case *ssa.UnOp:
			if x.Op != token.MUL {
				return false, "computed value"
			}
			cell, ok := x.X.(*ssa.Alloc)
			if !ok {
				return false, "loaded from " + x.X.String() + " (not made here)"
			}
			if cell.Referrers() == nil {
				return false, "local without stores"
			}
			n := 0
			for _, r := range *cell.Referrers() {
				st, ok := r.(*ssa.Store)
				if !ok {
					if _, isLoad := r.(*ssa.UnOp); isLoad {
						continue
					}
					if _, isDbg := r.(*ssa.DebugRef); isDbg {
						continue
					}
					return false, "local " + cell.Comment + " has its address taken"
				}
				if st.Addr != ssa.Value(cell) {
					return false, "local " + cell.Comment + " has its address stored"
				}
				n++
				if ok, why := isFresh(st.Val, depth+1); !ok {
					return false, "local " + cell.Comment + " may hold a value not made here: " + why
				}
			}
			return n > 0, "local never assigned"
		}
		return false, fmt.Sprintf("value of kind %T (not made in this function)", v)
	}
	for _, key := range as.List {
		i := strings.LastIndex(key, ".")
		skey, field := key[:i], key[i+1:]
		o := &OblResult{Name: "module/owned-field:" + key, Kind: "owned-field", Func: key, Backend: "ssa-walker", Result: "discharged", Desc: "every store to the field stores an object made in the storing function (no two owners share it)"}
		ar.Obls = append(ar.Obls, o)
		found := false
		for _, p := range progs {
			for _, fn := range p.All {
				for _, b := range fn.Blocks {
					for _, in := range b.Instrs {
						fa, ok := in.(*ssa.FieldAddr)
						if !ok {
							continue
						}
						st := deref(fa.X.Type())
						if structKey(st) != skey || st.Underlying().(*types.Struct).Field(fa.Field).Name() != field {
							continue
						}
						found = true
						if fa.Referrers() == nil {
							continue
						}
						for _, r := range *fa.Referrers() {
							switch x := r.(type) {
							case *ssa.Store:
								if x.Addr != ssa.Value(fa) {
									o.Result, o.Why = "failed", "address of the field is stored at "+p.Pos(x.Pos())
									continue
								}
								if ok, why := isFresh(x.Val, 0); !ok {
									o.Result, o.Why = "failed", "stored value at "+p.Pos(x.Pos())+" in "+p.FuncKey(fn)+": "+why
								}
							case *ssa.UnOp, *ssa.DebugRef:
							default:
								o.Result, o.Why = "failed", fmt.Sprintf("address of the field used by %T at %s in %s", r, p.Pos(r.Pos()), p.FuncKey(fn))
							}
						}
					}
				}
			}
		}
		if !found {
			o.Result, o.Why = "failed", "field not found in the loaded packages"
		}
	}
	ar.Summary = fmt.Sprintf("%d fields checked for exclusive ownership", len(as.List))
	return ar
}

// acquiresGuard: does fn, or a module function it can reach through static calls, closures it creates
// or (class-hierarchy style) module implementations of invoked interface methods, lock the mutex field
// guard ("pkg.Struct.field")? Returns a short description of where, or "".
func acquiresGuard(p *Program, fn *ssa.Function, guard string, seen map[*ssa.Function]bool) string {
	if fn == nil || seen[fn] || len(fn.Blocks) == 0 {
		return ""
	}
	seen[fn] = true
	i := strings.LastIndex(guard, ".")
	skey, field := guard[:i], guard[i+1:]
	for _, b := range fn.Blocks {
		for _, in := range b.Instrs {
			if mc, ok := in.(*ssa.MakeClosure); ok {
				if f, ok := mc.Fn.(*ssa.Function); ok {
					if via := acquiresGuard(p, f, guard, seen); via != "" {
						return via
					}
				}
			}
			ci, ok := in.(ssa.CallInstruction)
			if !ok {
				continue
			}
			c := ci.Common()
			if c.IsInvoke() {
				// module implementations of the invoked method
				for _, cand := range p.All {
					if cand.Name() == c.Method.Name() && cand.Signature.Recv() != nil && cand.Pkg != nil && strings.HasPrefix(cand.Pkg.Pkg.Path(), p.ModPrefix) {
						if types.Implements(cand.Signature.Recv().Type(), c.Value.Type().Underlying().(*types.Interface)) {
							if via := acquiresGuard(p, cand, guard, seen); via != "" {
								return via
							}
						}
					}
				}
				continue
			}
			sc := c.StaticCallee()
			if sc == nil {
				continue
			}
			if sc.Pkg != nil && sc.Pkg.Pkg.Path() == "sync" && (sc.Name() == "Lock" || sc.Name() == "RLock") && len(c.Args) > 0 {
				if fa, ok := c.Args[0].(*ssa.FieldAddr); ok {
					st := deref(fa.X.Type())
					if structKey(st) == skey && st.Underlying().(*types.Struct).Field(fa.Field).Name() == field {
						return sc.Name() + " in " + p.FuncKey(fn) + " at " + p.Pos(in.Pos())
					}
				}
				continue
			}
			if sc.Pkg != nil && strings.HasPrefix(sc.Pkg.Pkg.Path(), p.ModPrefix) {
				if via := acquiresGuard(p, sc, guard, seen); via != "" {
					return via
				}
			}
		}
	}
	return ""
}

// callersVerified: every function that calls fn directly is verified in this run, or is itself a helper
// inlined everywhere whose callers are.
func callersVerified(p *Program, fn *ssa.Function, verified map[string]bool, depth int) bool {
	if depth > 4 {
		return false
	}
	any := false
	for _, g := range p.All {
		calls := false
		for _, b := range g.Blocks {
			for _, in := range b.Instrs {
				if c, ok := in.(*ssa.Call); ok && c.Call.StaticCallee() == fn {
					calls = true
				}
			}
		}
		if !calls {
			continue
		}
		any = true
		if verified[p.FuncKey(g)] {
			continue
		}
		if InlinedEverywhere(p, g) && callersVerified(p, g, verified, depth+1) {
			continue
		}
		return false
	}
	return any
}

func init() {
	analyses["param-flow"] = analyseParamFlow
}

// analyseParamFlow: in each listed function the parameter args["param"] is only handed on to the callees
// listed in args["callees"] (suffix match on the callee key) and only has the methods listed in
// args["methods"] invoked on it; it is not type-asserted, stored, captured or passed anywhere else. This
// pins who can touch an object a caller lends to the function (e.g. the FContext of a call).
func analyseParamFlow(as AnalysisSpec, progs []*Program, cs *Contracts, funcs []*FuncResult, work string, timeout time.Duration) *AnalysisResult {
	ar := &AnalysisResult{Name: as.Name}
	split := func(s string) []string {
		var out []string
		for _, x := range strings.Split(s, ",") {
			if x = strings.TrimSpace(x); x != "" {
				out = append(out, x)
			}
		}
		return out
	}
	callees, methods := split(as.Args["callees"]), split(as.Args["methods"])
	okCallee := func(k string) bool {
		for _, c := range callees {
			if k == c || strings.HasSuffix(k, "."+c) || strings.HasSuffix(k, c) {
				return true
			}
		}
		return false
	}
	okMethod := func(m string) bool {
		for _, x := range methods {
			if x == m {
				return true
			}
		}
		return false
	}
	for _, key := range as.Functions {
		o := &OblResult{Name: key + "/param-flow:" + as.Args["param"], Kind: "param-flow", Func: key, Backend: "ssa-walker", Result: "discharged", Desc: "parameter " + as.Args["param"] + " is handed only to {" + as.Args["callees"] + "} and only has {" + as.Args["methods"] + "} invoked on it"}
		ar.Obls = append(ar.Obls, o)
		var fn *ssa.Function
		var p *Program
		for _, pp := range progs {
			if f := pp.Funcs[key]; f != nil {
				fn, p = f, pp
			}
		}
		if fn == nil {
			o.Result, o.Why = "failed", "function not found"
			continue
		}
		pname := as.Args["param"]
		if ct := cs.Funcs[key]; ct != nil {
			// positional name
			for i, n := range ct.ParamNames {
				if n == pname && i < len(fn.Params) {
					pname = fn.Params[i].Name()
				}
			}
		}
		var param *ssa.Parameter
		for _, q := range fn.Params {
			if q.Name() == pname {
				param = q
			}
		}
		if param == nil {
			o.Result, o.Why = "failed", "parameter not found"
			continue
		}
		fail := func(why string, pos token.Pos) {
			if o.Result == "discharged" {
				o.Result, o.Why = "failed", why+" at "+p.Pos(pos)
			}
		}
		seen := map[ssa.Value]bool{}
		var follow func(v ssa.Value)
		follow = func(v ssa.Value) {
			if seen[v] || v.Referrers() == nil {
				return
			}
			seen[v] = true
			for _, r := range *v.Referrers() {
				switch x := r.(type) {
				case *ssa.DebugRef:
				case *ssa.Store:
					// the parameter's own spill cell (NaiveForm): follow loads of that cell
					if al, ok := x.Addr.(*ssa.Alloc); ok && x.Val == v && !addrEscapes(al, al.Referrers(), 0) {
						for _, rr := range *al.Referrers() {
							if u, ok := rr.(*ssa.UnOp); ok && u.Op == token.MUL {
								follow(u)
							}
						}
						continue
					}
					fail("the parameter is stored", x.Pos())
				case *ssa.MakeInterface:
					follow(x)
				case *ssa.ChangeInterface:
					follow(x)
				case *ssa.ChangeType:
					follow(x)
				case *ssa.BinOp:
					// comparison with nil etc.
				case *ssa.TypeAssert:
					fail("the parameter is type-asserted (its concrete state becomes reachable)", x.Pos())
				case ssa.CallInstruction:
					c := x.Common()
					if _, isGo := r.(*ssa.Go); isGo {
						fail("the parameter is handed to a goroutine", r.Pos())
						continue
					}
					if c.IsInvoke() && c.Value == v {
						if !okMethod(c.Method.Name()) {
							fail("method "+c.Method.Name()+" is invoked on the parameter", r.Pos())
						}
						continue
					}
					k := ""
					if c.IsInvoke() {
						k = ifaceMethodKey(c)
					} else if sc := c.StaticCallee(); sc != nil {
						if sc.Pkg != nil && strings.HasPrefix(sc.Pkg.Pkg.Path(), p.ModPrefix) {
							k = p.FuncKey(sc)
						} else {
							k = calleeKeyExternal(sc)
						}
					}
					if k == "" || !okCallee(k) {
						fail("the parameter is passed to "+k, r.Pos())
					}
				case *ssa.MakeClosure:
					fail("the parameter is captured by a closure", x.Pos())
				default:
					fail(fmt.Sprintf("the parameter is used by %T", r), r.Pos())
				}
			}
		}
		follow(param)
	}
	ar.Summary = fmt.Sprintf("%d functions checked for the flow of parameter %s", len(as.Functions), as.Args["param"])
	return ar
}

// onlyReceivedFrom: a channel parameter whose only uses are receives (plain or in a select) and len/cap.
func onlyReceivedFrom(p *ssa.Parameter) bool {
	seen := map[ssa.Value]bool{}
	var ok func(v ssa.Value) bool
	ok = func(v ssa.Value) bool {
		if seen[v] || v.Referrers() == nil {
			return true
		}
		seen[v] = true
		for _, r := range *v.Referrers() {
			switch x := r.(type) {
			case *ssa.DebugRef:
			case *ssa.Store:
				al, isAl := x.Addr.(*ssa.Alloc)
				if !isAl || x.Val != v || addrEscapes(al, al.Referrers(), 0) {
					return false
				}
				for _, rr := range *al.Referrers() {
					if u, isU := rr.(*ssa.UnOp); isU && u.Op == token.MUL {
						if !ok(u) {
							return false
						}
					}
				}
			case *ssa.UnOp:
				if x.Op != token.ARROW {
					return false
				}
			case *ssa.Select:
				for _, st := range x.States {
					if st.Chan == v && st.Dir != types.RecvOnly {
						return false
					}
				}
			case *ssa.ChangeType:
				if !ok(x) {
					return false
				}
			case *ssa.Call:
				bi, isB := x.Call.Value.(*ssa.Builtin)
				if !isB || (bi.Name() != "len" && bi.Name() != "cap") {
					return false
				}
			default:
				return false
			}
		}
		return true
	}
	return ok(p)
}
