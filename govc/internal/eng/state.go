package eng

import (
	"fmt"
	"go/types"
	"sort"
	"strings"

	"golang.org/x/tools/go/ssa"
)

// Query is one SMT goal on one path.
type Query struct {
	Lines []string
	Goal  string
	Path  int
}

// Obligation is a named proof obligation; it is discharged iff every query is unsat.
type Obligation struct {
	Name    string
	Kind    string
	Func    string
	Pos     string
	Desc    string
	Queries []*Query
	Trivial int
	// Structural obligations are decided by the SSA walker, not by a solver.
	Structural bool
	StructOK   bool
	StructWhy  string
}

type Event struct {
	Kind string // call, send, recv, select, go, lock, unlock, close, sleep, block
	What string
	Args []*Val
	ArgTypes []types.Type
	Rets []*Val
	RetTypes []types.Type
	Pos  string
	Instr ssa.Instruction
	Blocking bool
	Held []string
	Extra map[string]string
}

type cell struct {
	L   []string
	NN  bool
	Src string
	SrcBase string
	Under *Val
	Fn    *ssa.Function // statically known function value held in the cell (closures, bound methods)
	Bind  []*Val
}

type deferred struct {
	call *ssa.CallCommon
	args []*Val
	argTypes []types.Type
	fn   *Val
	instr ssa.Instruction
}

type Frame struct {
	Fn     *ssa.Function
	Vals   map[ssa.Value]*Val
	Defers []deferred
	Prefix string // obligation-name prefix for inlined frames
	Depth  int
}

type iterState struct {
	Map   *Val
	MT    *types.Map
	V     string // visited-set term (Array K Bool)
	Dom0  string // domain snapshot at range creation
	Vals0 string // values snapshot at range creation (when folds apply)
	Str   *Val // range over string (unsupported -> havoc)
}

// State is one symbolic path.
type State struct {
	Lines  []string
	Decl   map[string]bool
	Locals map[*ssa.Alloc]*cell
	Heap   map[string]string
	Frames []*Frame
	Held   map[string]string // lock key -> mode ("w"/"r")
	Trace  []Event
	Iters  map[ssa.Value]*iterState
	FreshRefs map[string]bool // ref terms allocated in this activation and not yet escaped
	Dead   bool
	PathID int
	LoopEntry map[*ssa.BasicBlock]map[string]string // header -> measure term at entry
	Ghost  map[string]string
	Epoch  int
	pendingHavoc []string
	Shared []string
	Entry  map[int]*entrySnap
	Base   map[string]string // heap name -> entry value updated with every interference step (frame baseline)
	Owner  map[string]string // fresh ref -> the fresh object whose field holds it
	LoopHeap map[*ssa.BasicBlock]map[string]string // heap snapshot at the entry of each loop (loopentry())
	IterHeap map[string]string // heap at the start of the current (arbitrary) loop iteration (iterstart())
	IterLocals map[*ssa.Alloc]*cell // locals at that moment
	// Private: refs of struct objects allocated here whose address provably never escapes this body.
	Private map[string]bool
}

func (s *State) clone() *State {
	n := &State{
		Lines:  s.Lines[:len(s.Lines):len(s.Lines)],
		Decl:   make(map[string]bool, len(s.Decl)),
		Locals: make(map[*ssa.Alloc]*cell, len(s.Locals)),
		Heap:   make(map[string]string, len(s.Heap)),
		Held:   make(map[string]string, len(s.Held)),
		Trace:  s.Trace[:len(s.Trace):len(s.Trace)],
		Iters:  make(map[ssa.Value]*iterState, len(s.Iters)),
		FreshRefs: make(map[string]bool, len(s.FreshRefs)),
		LoopEntry: make(map[*ssa.BasicBlock]map[string]string, len(s.LoopEntry)),
		Ghost: make(map[string]string, len(s.Ghost)),
		PathID: s.PathID,
		Shared: s.Shared,
		Private: s.Private,
		LoopHeap: s.LoopHeap,
		IterHeap: s.IterHeap,
		IterLocals: s.IterLocals,
		Owner:  s.Owner,
		Base:   s.Base,
		Entry:  s.Entry,
		Epoch:  s.Epoch,
		pendingHavoc: s.pendingHavoc[:len(s.pendingHavoc):len(s.pendingHavoc)],
	}
	for k, v := range s.Decl {
		n.Decl[k] = v
	}
	for k, v := range s.Locals {
		n.Locals[k] = v
	}
	for k, v := range s.Heap {
		n.Heap[k] = v
	}
	for k, v := range s.Held {
		n.Held[k] = v
	}
	for k, v := range s.Iters {
		c := *v
		n.Iters[k] = &c
	}
	for k, v := range s.FreshRefs {
		n.FreshRefs[k] = v
	}
	for k, v := range s.LoopEntry {
		n.LoopEntry[k] = v
	}
	for k, v := range s.Ghost {
		n.Ghost[k] = v
	}
	for _, f := range s.Frames {
		nf := &Frame{Fn: f.Fn, Vals: make(map[ssa.Value]*Val, len(f.Vals)), Defers: f.Defers[:len(f.Defers):len(f.Defers)], Prefix: f.Prefix, Depth: f.Depth}
		for k, v := range f.Vals {
			nf.Vals[k] = v
		}
		n.Frames = append(n.Frames, nf)
	}
	return n
}

func (s *State) top() *Frame { return s.Frames[len(s.Frames)-1] }

func (s *State) add(line string) { s.Lines = append(s.Lines, line) }

func (s *State) assume(t string) {
	if t == "true" {
		return
	}
	if strings.Contains(t, "q!") && !strings.Contains(t, "(forall ") && !strings.Contains(t, "(exists ") {
		// a side fact about a term that mentions a bound variable of a spec quantifier: it cannot be
		// stated outside the quantifier; drop it (it is only ever a helpful assumption)
		return
	}
	if t == "false" {
		s.Dead = true
	}
	s.add("(assert " + t + ")")
}

// Engine holds everything shared between the paths of one function verification.
type Engine struct {
	P        *Program
	C        *Contracts
	Cfg      *CheckConfig
	nfresh   int
	postSeen map[int]int // ensures clause -> return paths on which it was applicable
	postReturns int
	Obls     map[string]*Obligation
	OblOrder []string
	Fn       *ssa.Function
	FnKey    string
	Contract *Contract
	Notes    map[string]bool // assumptions / abstractions used
	Unsupported string
	npaths   int
	maxPaths int
	ord      map[ssa.Instruction]map[string]int
	typeTags map[string]int
	strLits  map[string]string
	loops    map[*ssa.Function]*loopInfo
	Paths    []*PathEnd
	ifaceAsserted map[string]*types.Interface
	globalDecls []string
	inlineStack []string
	heapSorts   map[string]string
	pathCounter int
	tagTypes    []types.Type
	globLen     map[*ssa.Global]int64
	fieldIDs    map[string]int // identities of mutex fields whose address is stored (faddr)
	Exclusive    bool // second pass: the receiver is owned exclusively (no interference at lock acquisition)
	entryMeasure string
	curArgTypes  []types.Type
	entryLines  int
	entryState  *State
}

func (e *Engine) regHeap(name, sort string) {
	if old, ok := e.heapSorts[name]; ok && old != sort {
		panic("heap sort clash " + name + ": " + old + " vs " + sort)
	}
	e.heapSorts[name] = sort
}

// PathEnd is a finished path of the top-level function (return or panic).
type PathEnd struct {
	Lines   []string // path condition at the return, before postconditions were asserted/assumed
	S       *State
	Results []*Val
	Kind    string // return | panic | loopback
}

func (e *Engine) fresh(prefix string) string {
	e.nfresh++
	return fmt.Sprintf("%s!%d", prefix, e.nfresh)
}

func (e *Engine) note(s string) { e.Notes[s] = true }

// declare introduces an unconstrained constant.
func (e *Engine) declare(s *State, prefix, sort string) string {
	n := e.fresh(prefix)
	s.add("(declare-const " + n + " " + sort + ")")
	return n
}

// define introduces a named abbreviation for term.
func (e *Engine) define(s *State, prefix, sort, term string) string {
	if isAtom(term) {
		return term
	}
	if strings.Contains(term, "q!") {
		return term // mentions a bound variable of a spec quantifier: must stay inline
	}
	n := e.fresh(prefix)
	s.add("(define-fun " + n + " () " + sort + " " + term + ")")
	return n
}

func isAtom(t string) bool {
	return !strings.ContainsAny(t, " (")
}

// havocVal makes a fresh value of type t with its type invariants assumed.
func (e *Engine) havocVal(s *State, t types.Type, prefix string) *Val {
	if tup, ok := t.(*types.Tuple); ok {
		v := &Val{}
		for i := 0; i < tup.Len(); i++ {
			c := e.havocVal(s, tup.At(i).Type(), fmt.Sprintf("%s_%d", prefix, i))
			v.Tup = append(v.Tup, c)
			v.L = append(v.L, c.L...)
		}
		return v
	}
	v := &Val{}
	for _, l := range e.leaves(t) {
		n := e.declare(s, prefix+sanitizeName(l.Path), l.Sort)
		v.L = append(v.L, n)
	}
	e.assumeTypeInv(s, t, v)
	return v
}

func sanitizeName(p string) string {
	r := strings.NewReplacer(".", "_", "[", "_", "]", "_", "#", "_", "$", "_")
	return r.Replace(p)
}

// assumeTypeInv assumes Go's representation invariants of a value.
func (e *Engine) assumeTypeInv(s *State, t types.Type, v *Val) {
	ls := e.leaves(t)
	for i, l := range ls {
		if i >= len(v.L) {
			break
		}
		x := v.L[i]
		switch l.Sort {
		case "Int":
			if _, _, ok := isInteger(l.T); ok {
				s.assume(rangeOf(l.T, x))
			} else if isRefLike(l.T) {
				s.assume(app(">=", x, "0"))
			}
		case "Str":
			s.assume(and(app(">=", app("slen", x), "0"), app("<=", app("slen", x), "4611686018427387904")))
		}
	}
	// slice invariants
	e.walkSlices(t, v.L, func(b, o, l, c string) {
		s.assume(and(app(">=", b, "0"), app(">=", o, "0"), app("<=", "0", l), app("<=", l, c), app("<=", c, "4611686018427387904"),
			implies(eq(b, "0"), eq(c, "0"))))
	})
}

// walkSlices calls f for each slice-typed component of a flattened value.
func (e *Engine) walkSlices(t types.Type, L []string, f func(b, o, l, c string)) {
	idx := 0
	var rec func(t types.Type)
	rec = func(t types.Type) {
		switch u := t.Underlying().(type) {
		case *types.Slice:
			if idx+3 < len(L) {
				f(L[idx], L[idx+1], L[idx+2], L[idx+3])
			}
			idx += 4
		case *types.Struct:
			if u.NumFields() == 0 {
				idx++
			}
			for i := 0; i < u.NumFields(); i++ {
				rec(u.Field(i).Type())
			}
		case *types.Tuple:
			for i := 0; i < u.Len(); i++ {
				rec(u.At(i).Type())
			}
		default:
			idx += len(e.leaves(t))
		}
	}
	rec(t)
}

// ---- heap ----

func (e *Engine) heapSort(name string) string {
	return e.heapSorts[name]
}

var _ = sort.Strings

func (e *Engine) heapGet(s *State, name, sort string) string {
	if cur, ok := s.Heap[name]; ok {
		return cur
	}
	e.regHeap(name, sort)
	pend := s.Epoch > 0
	for _, pre := range s.pendingHavoc {
		if strings.HasPrefix(name, pre) {
			pend = true
		}
	}
	if pend && e.immutableHeap(name) {
		pend = false
	}
	if pend {
		n := e.fresh("H!" + name)
		s.add("(declare-const " + n + " " + sort + ")")
		s.Heap[name] = n
		return n
	}
	init := "H0!" + name
	if !s.Decl[init] {
		s.Decl[init] = true
		s.add("(declare-const " + init + " " + sort + ")")
	}
	s.Heap[name] = init
	return init
}

func (e *Engine) heapOld(s *State, name, sort string) string {
	e.regHeap(name, sort)
	init := "H0!" + name
	if !s.Decl[init] {
		s.Decl[init] = true
		// declared late: it is also the current value if never written
		s.add("(declare-const " + init + " " + sort + ")")
		if _, ok := s.Heap[name]; !ok {
			s.Heap[name] = init
		}
	}
	return init
}

func (e *Engine) heapSet(s *State, name, sort, term string) {
	e.regHeap(name, sort)
	n := e.fresh("H!" + name)
	s.add("(define-fun " + n + " () " + sort + " " + term + ")")
	s.Heap[name] = n
}

func (e *Engine) heapHavoc(s *State, name string) {
	sort := e.heapSorts[name]
	if sort == "" {
		return
	}
	if e.immutableHeap(name) {
		return // written only during construction of its object (checked structurally)
	}
	// make sure the initial constant exists so old() stays meaningful
	e.heapGet(s, name, sort)
	n := e.fresh("H!" + name)
	s.add("(declare-const " + n + " " + sort + ")")
	s.Heap[name] = n
}

// baseGet: the frame baseline of a heap map: its entry value with every interference step replayed.
func (e *Engine) baseGet(s *State, name, sort string) string {
	if b, ok := s.Base[name]; ok {
		return b
	}
	if ent := s.Entry[0]; ent != nil {
		if h, ok := ent.Heap[name]; ok {
			return h
		}
	}
	return e.heapOld(s, name, sort)
}

// interfere records that another goroutine may have changed heap map `name` at object obj to val:
// both the current heap and the frame baseline take the new value.
func (e *Engine) interfere(s *State, name, sort, obj, val string) {
	cur := e.heapGet(s, name, sort)
	base := e.baseGet(s, name, sort)
	e.heapSet(s, name, sort, app("store", cur, obj, val))
	nb := make(map[string]string, len(s.Base)+1)
	for k, v := range s.Base {
		nb[k] = v
	}
	nb[name] = e.define(s, "B!"+name, sort, app("store", base, obj, val))
	s.Base = nb
}
