package eng

import (
	"fmt"
	"go/ast"
	"go/parser"
	"sort"
	"strconv"
	"strings"
)

// Contract is the set of clauses attached to one function (or interface method).
type Contract struct {
	Key        string
	File       string
	Line       int
	Requires   []Clause
	Ensures    []Clause
	// EnsuresExcl: postconditions that hold when the caller holds the only reference to the receiver
	// (no other thread can interfere between lock acquisitions). Proved in a second pass in which lock
	// acquisition does not havoc the guarded state; used only at call sites where the receiver is an
	// object allocated by the caller that has not escaped.
	EnsuresExcl []Clause
	LoopInv    map[int][]Clause
	LoopInvExcl map[int][]Clause // invariants used only in the sequential (exclusive) pass
	LoopDec    map[int]Clause
	Decreases  *Clause
	Modifies   []string // heap-map patterns the function may change ("*" = everything)
	Flags      map[string]string
	PanicsWhen []Clause // ensures-on-panic (unused: panics are obligations)
	// ParamNames: the names the contract uses for the receiver and parameters, by position
	// ("func key(recv, a, b)"). When the code renames a parameter the contract keeps binding by position.
	ParamNames []string
	// LocalNames: the named locals of the function in declaration (SSA) order, as they were when the
	// contract was written ("locals a, b, c"). If the code renames locals without adding or removing any,
	// clauses that mention the old names keep binding by position.
	LocalNames []string
}

type Clause struct {
	Text string
	Expr ast.Expr
	Name string // optional label
}

// Guard declares that lock field Lock of struct Struct protects Fields.
type Guard struct {
	Struct string // "lib.fRegistryImpl"
	Lock   string // field name
	Fields []string
	Inv    []Clause // over "self"
}

type Contracts struct {
	Funcs  map[string]*Contract
	Guards []*Guard
	Order  []string
	// Containers: "pkg.Struct.field" -> invariant on the elements held by that map/chan/slice field
	// (currently only "nonnil"). Checked at every write, assumed at every read.
	Containers map[string]string
	// Preds are definitional macros: pred name(a, b) = expr
	Preds map[string]*Pred
	// TypeInvs: "pkg.Type" -> invariant over "self", maintained by every method of the type
	// (visible-state semantics): assumed for the receiver at calls from outside the type.
	TypeInvs map[string]Clause
	// Immutable: "pkg.Struct.field" written only during construction of its object.
	Immutable map[string]bool
	// Folds: finite-map sums  fold name(k K, v V) = weight  (weights must be non-negative)
	Folds map[string]*Fold
	// SpecFns: declared uninterpreted spec functions: name -> (argument sorts, result sort)
	SpecFns map[string]*SpecFn
	// Defines: recursive spec functions given by a defining equation; every use is unfolded once
	Defines map[string]*Pred
	// MapRanges: "func key#k" -> justification class of the k-th range-over-map of that function
	MapRanges map[string]string
	// SMT: raw SMT-LIB axioms defining spec functions (trusted definitions, printed in the evidence)
	SMT []string
	// Names: "names key(recv, a, b) locals x, y" - the parameter and local names a check file uses for a
	// function that has no contract of its own (analysis conditions name them); bound by position.
	Names map[string]*Contract
}

type SpecFn struct {
	Args []string
	Res  string
}

// Fold is a sum over the entries of a finite map, axiomatised by ground instances at every map
// operation (empty, insert, range step, monotonicity).
type Fold struct {
	Name         string
	KName, VName string
	KType, VType string
	Body         Clause
}

type Pred struct {
	Name   string
	Params []string
	Body   Clause
}

func (c *Contract) Flag(k string) bool { _, ok := c.Flags[k]; return ok }

// Desugar turns "a ==> b" and "a <==> b" into implies(a,b) / iff(a,b) so the text is a Go expression.
func Desugar(s string) string {
	s = strings.TrimSpace(s)
	if i := topLevel(s, "<==>"); i >= 0 {
		return "iff(" + Desugar(s[:i]) + ", " + Desugar(s[i+4:]) + ")"
	}
	if i := topLevel(s, "==>"); i >= 0 {
		return "implies(" + Desugar(s[:i]) + ", " + Desugar(s[i+3:]) + ")"
	}
	var b strings.Builder
	for i := 0; i < len(s); {
		ch := s[i]
		if ch == '"' {
			j := i + 1
			for j < len(s) && s[j] != '"' {
				if s[j] == '\\' {
					j++
				}
				j++
			}
			b.WriteString(s[i:min(j+1, len(s))])
			i = j + 1
			continue
		}
		if ch == '(' || ch == '[' {
			j := matching(s, i)
			if j < 0 {
				b.WriteString(s[i:])
				break
			}
			inner := s[i+1 : j]
			parts := splitTop(inner, ',')
			for k := range parts {
				parts[k] = Desugar(parts[k])
			}
			b.WriteByte(ch)
			b.WriteString(strings.Join(parts, ", "))
			b.WriteByte(s[j])
			i = j + 1
			continue
		}
		b.WriteByte(ch)
		i++
	}
	return b.String()
}

func matching(s string, i int) int {
	depth := 0
	for j := i; j < len(s); j++ {
		switch s[j] {
		case '"':
			j++
			for j < len(s) && s[j] != '"' {
				if s[j] == '\\' {
					j++
				}
				j++
			}
		case '(', '[':
			depth++
		case ')', ']':
			depth--
			if depth == 0 {
				return j
			}
		}
	}
	return -1
}

func topLevel(s, op string) int {
	depth := 0
	for i := 0; i < len(s); i++ {
		switch s[i] {
		case '"':
			i++
			for i < len(s) && s[i] != '"' {
				if s[i] == '\\' {
					i++
				}
				i++
			}
		case '(', '[':
			depth++
		case ')', ']':
			depth--
		default:
			if depth == 0 && strings.HasPrefix(s[i:], op) {
				// "==>" must not be matched inside "<==>"
				if op == "==>" && i > 0 && s[i-1] == '<' {
					continue
				}
				return i
			}
		}
	}
	return -1
}

func splitTop(s string, sep byte) []string {
	var out []string
	depth, last := 0, 0
	for i := 0; i < len(s); i++ {
		switch s[i] {
		case '"':
			i++
			for i < len(s) && s[i] != '"' {
				if s[i] == '\\' {
					i++
				}
				i++
			}
		case '(', '[':
			depth++
		case ')', ']':
			depth--
		default:
			if s[i] == sep && depth == 0 {
				out = append(out, s[last:i])
				last = i + 1
			}
		}
	}
	return append(out, s[last:])
}

func parseClause(text string) (Clause, error) {
	e, err := parser.ParseExpr(Desugar(text))
	if err != nil {
		return Clause{}, fmt.Errorf("cannot parse %q: %v", text, err)
	}
	return Clause{Text: strings.TrimSpace(text), Expr: e}, nil
}

// ParseContracts reads every "//@" line of the given files (name -> text). Keys are fully
// qualified: pkg.Func, pkg.Type.Method (pkg = last import path element; lib/go is "lib").
func ParseContracts(files map[string]string) (*Contracts, error) {
	cs := &Contracts{Funcs: map[string]*Contract{}, Containers: map[string]string{}, Preds: map[string]*Pred{}, TypeInvs: map[string]Clause{}, Immutable: map[string]bool{}, Folds: map[string]*Fold{}, SpecFns: map[string]*SpecFn{}, MapRanges: map[string]string{}, Defines: map[string]*Pred{}, Names: map[string]*Contract{}}
	var names []string
	for n := range files {
		names = append(names, n)
	}
	sort.Strings(names)
	for _, fname := range names {
		var cur *Contract
		var curGuard *Guard
		for ln, raw := range strings.Split(files[fname], "\n") {
			raw = strings.TrimSpace(raw)
			if !strings.HasPrefix(raw, "//@") {
				continue
			}
			line := strings.TrimSpace(raw[3:])
			if line == "" {
				continue
			}
			if i := strings.Index(line, " //"); i >= 0 && !strings.Contains(line[:i], "\"") {
				line = strings.TrimSpace(line[:i])
			}
			fields := strings.Fields(line)
			kw := fields[0]
			rest := strings.TrimSpace(line[len(kw):])
			fail := func(err error) error { return fmt.Errorf("%s:%d: %v", fname, ln+1, err) }
			switch kw {
			case "func", "iface":
				key := rest
				var pnames []string
				if lp := strings.Index(rest, "("); lp > 0 && strings.HasSuffix(rest, ")") {
					key = strings.TrimSpace(rest[:lp])
					for _, a := range strings.Split(rest[lp+1:len(rest)-1], ",") {
						pnames = append(pnames, strings.TrimSpace(a))
					}
				}
				cur = &Contract{Key: key, File: fname, Line: ln + 1, LoopInv: map[int][]Clause{}, LoopInvExcl: map[int][]Clause{}, LoopDec: map[int]Clause{}, Flags: map[string]string{}}
				cur.ParamNames = pnames
				if kw == "iface" {
					cur.Flags["iface"] = ""
				}
				if _, dup := cs.Funcs[key]; dup {
					return nil, fail(fmt.Errorf("duplicate contract for %s", key))
				}
				cs.Funcs[key] = cur
				cs.Order = append(cs.Order, key)
				curGuard = nil
			case "maprange":
				if len(fields) != 4 {
					return nil, fail(fmt.Errorf("maprange <func> <ordinal> <class>"))
				}
				cs.MapRanges[fields[1]+"#"+fields[2]] = fields[3]
				cur, curGuard = nil, nil
			case "smt":
				cs.SMT = append(cs.SMT, rest)
				cur, curGuard = nil, nil
			case "specfn":
				// specfn fmtuint(Int, Int) Str
				lp := strings.Index(rest, "(")
				rp := -1
				if lp >= 0 {
					rp = matching(rest, lp)
				}
				if lp < 0 || rp < lp {
					return nil, fail(fmt.Errorf("bad specfn"))
				}
				sf := &SpecFn{Res: strings.TrimSpace(rest[rp+1:])}
				for _, a := range splitTop(rest[lp+1:rp], ',') {
					if a = strings.TrimSpace(a); a != "" {
						sf.Args = append(sf.Args, a)
					}
				}
				cs.SpecFns[strings.TrimSpace(rest[:lp])] = sf
				cur, curGuard = nil, nil
			case "fold":
				// fold hsum(k string, v string) = 8 + len(k) + len(v)
				eqi := strings.Index(rest, "=")
				lp, rp := strings.Index(rest, "("), strings.Index(rest, ")")
				if eqi < 0 || lp < 0 || rp < lp || rp > eqi {
					return nil, fail(fmt.Errorf("bad fold"))
				}
				fd := &Fold{Name: strings.TrimSpace(rest[:lp])}
				ps := strings.Split(rest[lp+1:rp], ",")
				if len(ps) != 2 {
					return nil, fail(fmt.Errorf("fold takes (k K, v V)"))
				}
				kf, vf := strings.Fields(ps[0]), strings.Fields(ps[1])
				if len(kf) != 2 || len(vf) != 2 {
					return nil, fail(fmt.Errorf("fold parameter needs name and type"))
				}
				fd.KName, fd.KType, fd.VName, fd.VType = kf[0], kf[1], vf[0], vf[1]
				cl, err := parseClause(rest[eqi+1:])
				if err != nil {
					return nil, fail(err)
				}
				fd.Body = cl
				cs.Folds[fd.Name] = fd
				cur, curGuard = nil, nil
			case "immutable":
				for _, f := range fields[1:] {
					cs.Immutable[strings.TrimSuffix(f, ",")] = true
				}
				cur, curGuard = nil, nil
			case "typeinv":
				if len(fields) < 3 {
					return nil, fail(fmt.Errorf("bad typeinv"))
				}
				cl, err := parseClause(strings.TrimSpace(rest[len(fields[1]):]))
				if err != nil {
					return nil, fail(err)
				}
				cs.TypeInvs[fields[1]] = cl
				cur, curGuard = nil, nil
			case "pred", "define":
				eqi := strings.Index(rest, "=")
				lp, rp := strings.Index(rest, "("), strings.Index(rest, ")")
				if eqi < 0 || lp < 0 || rp < lp || rp > eqi {
					return nil, fail(fmt.Errorf("bad pred"))
				}
				pd := &Pred{Name: strings.TrimSpace(rest[:lp])}
				for _, a := range strings.Split(rest[lp+1:rp], ",") {
					if a = strings.TrimSpace(a); a != "" {
						pd.Params = append(pd.Params, a)
					}
				}
				cl, err := parseClause(rest[eqi+1:])
				if err != nil {
					return nil, fail(err)
				}
				pd.Body = cl
				if kw == "define" {
					cs.Defines[pd.Name] = pd
				} else {
					cs.Preds[pd.Name] = pd
				}
				cur, curGuard = nil, nil
			case "container":
				if len(fields) < 3 {
					return nil, fail(fmt.Errorf("bad container clause"))
				}
				for _, w := range fields[2:] {
					if w != "nonnil" && w != "open" && w != "sendlocked" {
						return nil, fail(fmt.Errorf("bad container invariant %q", w))
					}
				}
				cs.Containers[fields[1]] = strings.Join(fields[2:], " ")
				cur, curGuard = nil, nil
			case "guard":
				parts := strings.SplitN(rest, " protects ", 2)
				if len(parts) != 2 {
					return nil, fail(fmt.Errorf("bad guard"))
				}
				lk := strings.TrimSpace(parts[0])
				i := strings.LastIndex(lk, ".")
				g := &Guard{Struct: lk[:i], Lock: lk[i+1:]}
				for _, fl := range strings.Split(parts[1], ",") {
					g.Fields = append(g.Fields, strings.TrimSpace(fl))
				}
				cs.Guards = append(cs.Guards, g)
				curGuard = g
				cur = nil
			case "sig":
				cur, curGuard = nil, nil
			case "fields":
				// recorded struct field lists (specs/fields.spec): read by the rebinding step, not a contract
				cur, curGuard = nil, nil
			case "names":
				// names key(recv, a, b) locals x, y, z
				head, locs := rest, ""
				if i := strings.Index(rest, " locals"); i >= 0 {
					head, locs = strings.TrimSpace(rest[:i]), strings.TrimSpace(rest[i+7:])
				}
				nc := &Contract{}
				if lp := strings.Index(head, "("); lp > 0 && strings.HasSuffix(head, ")") {
					nc.Key = strings.TrimSpace(head[:lp])
					for _, a := range strings.Split(head[lp+1:len(head)-1], ",") {
						if a = strings.TrimSpace(a); a != "" {
							nc.ParamNames = append(nc.ParamNames, a)
						}
					}
				} else {
					nc.Key = head
				}
				for _, a := range strings.Split(locs, ",") {
					if a = strings.TrimSpace(a); a != "" {
						nc.LocalNames = append(nc.LocalNames, a)
					}
				}
				cs.Names[nc.Key] = nc
				cur, curGuard = nil, nil
			case "locals":
				if cur == nil {
					return nil, fail(fmt.Errorf("locals outside a function contract"))
				}
				for _, a := range strings.Split(rest, ",") {
					if a = strings.TrimSpace(a); a != "" {
						cur.LocalNames = append(cur.LocalNames, a)
					}
				}
			case "requires", "ensures", "ensures_exclusive", "decreases", "invariant":
				cl, err := parseClause(rest)
				if err != nil {
					return nil, fail(err)
				}
				if kw == "invariant" {
					if curGuard == nil {
						return nil, fail(fmt.Errorf("invariant outside guard"))
					}
					curGuard.Inv = append(curGuard.Inv, cl)
					continue
				}
				if cur == nil {
					return nil, fail(fmt.Errorf("clause outside func"))
				}
				switch kw {
				case "requires":
					cur.Requires = append(cur.Requires, cl)
				case "ensures":
					cur.Ensures = append(cur.Ensures, cl)
				case "ensures_exclusive":
					cur.EnsuresExcl = append(cur.EnsuresExcl, cl)
				case "decreases":
					cur.Decreases = &cl
				}
			case "loop":
				if cur == nil || len(fields) < 3 {
					return nil, fail(fmt.Errorf("bad loop clause"))
				}
				n, err := strconv.Atoi(fields[1])
				if err != nil {
					return nil, fail(err)
				}
				body := strings.TrimSpace(strings.TrimSpace(rest[len(fields[1]):])[len(fields[2]):])
				cl, err := parseClause(body)
				if err != nil {
					return nil, fail(err)
				}
				switch fields[2] {
				case "invariant":
					cur.LoopInv[n] = append(cur.LoopInv[n], cl)
				case "invariant_exclusive":
					cur.LoopInvExcl[n] = append(cur.LoopInvExcl[n], cl)
				case "decreases":
					cur.LoopDec[n] = cl
				default:
					return nil, fail(fmt.Errorf("bad loop clause kind %s", fields[2]))
				}
			case "modifies":
				if cur == nil {
					return nil, fail(fmt.Errorf("modifies outside func"))
				}
				for _, m := range splitTop(rest, ',') {
					cur.Modifies = append(cur.Modifies, strings.TrimSpace(m))
				}
			default:
				if cur == nil {
					return nil, fail(fmt.Errorf("flag %q outside func", kw))
				}
				cur.Flags[kw] = rest
			}
		}
	}
	sort.Strings(cs.Order)
	return cs, nil
}
