// Package eng is the verification-condition generator ("govc") for Go code:
// it loads the real packages of /repo, builds go/ssa in NaiveForm, reads the
// contracts from the guarded comment-only files, symbolically executes every
// function under contract (loops cut at invariants, calls replaced by callee
// contracts) and discharges each named obligation with SMT solvers.
package eng

import (
	"fmt"
	"go/ast"
	"go/token"
	"go/types"
	"sort"
	"strings"

	"golang.org/x/tools/go/packages"
	"golang.org/x/tools/go/ssa"
	"golang.org/x/tools/go/ssa/ssautil"
)

// Program is a loaded module: type-checked syntax plus naive SSA.
type Program struct {
	Fset  *token.FileSet
	Pkgs  []*packages.Package
	Prog  *ssa.Program
	SPkgs []*ssa.Package
	// Funcs maps the canonical short name ("readPairs", "v0ProtocolMarshaler.readPairs",
	// "pkg.Func") to the SSA function, for functions of the module's own packages.
	Funcs map[string]*ssa.Function
	// All own functions including anonymous ones.
	All []*ssa.Function
	// ModPrefix is the import-path prefix of "own" packages.
	ModPrefix string
	Overlay   map[string][]byte
}

// Load type-checks patterns in dir with -tags verif and builds SSA.
func Load(dir string, modPrefix string, overlay map[string][]byte, patterns ...string) (*Program, error) {
	cfg := &packages.Config{
		Mode:       packages.LoadAllSyntax,
		Dir:        dir,
		BuildFlags: []string{"-tags=verif"},
		Overlay:    overlay,
		Env:        append(envBase(), "GOFLAGS=-mod=mod", "GOPROXY=off", "GOSUMDB=off", "GOTOOLCHAIN=local"),
	}
	pkgs, err := packages.Load(cfg, patterns...)
	if err != nil {
		return nil, err
	}
	var errs []string
	packages.Visit(pkgs, nil, func(p *packages.Package) {
		if strings.HasPrefix(p.PkgPath, modPrefix) {
			for _, e := range p.Errors {
				errs = append(errs, e.Error())
			}
		}
	})
	if len(errs) > 0 {
		return nil, fmt.Errorf("load errors: %s", strings.Join(errs, "; "))
	}
	prog, spkgs := ssautil.AllPackages(pkgs, ssa.NaiveForm|ssa.InstantiateGenerics)
	prog.Build()
	p := &Program{Fset: pkgs[0].Fset, Pkgs: pkgs, Prog: prog, SPkgs: spkgs, Funcs: map[string]*ssa.Function{}, ModPrefix: modPrefix, Overlay: overlay}
	for fn := range ssautil.AllFunctions(prog) {
		if fn.Pkg == nil || !strings.HasPrefix(fn.Pkg.Pkg.Path(), modPrefix) {
			continue
		}
		if fn.Synthetic != "" && fn.Syntax() == nil {
			continue
		}
		p.All = append(p.All, fn)
		p.Funcs[p.FuncKey(fn)] = fn
	}
	sort.Slice(p.All, func(i, j int) bool { return p.All[i].String() < p.All[j].String() })
	return p, nil
}

// PkgShort is the last path element of the package ("go" is renamed "lib").
func PkgShort(path string) string {
	if strings.HasSuffix(path, "/lib/go") {
		return "lib"
	}
	if i := strings.LastIndex(path, "/"); i >= 0 {
		return path[i+1:]
	}
	return path
}

// FuncKey is the stable name used in contracts and obligation names:
// pkg.Recv.Name or pkg.Name; anonymous functions are parent$k.
func (p *Program) FuncKey(fn *ssa.Function) string {
	if fn.Parent() != nil {
		return p.FuncKey(fn.Parent()) + "$" + strings.TrimPrefix(fn.Name()[strings.LastIndex(fn.Name(), "$"):], "$")
	}
	pk := ""
	if fn.Pkg != nil {
		pk = PkgShort(fn.Pkg.Pkg.Path()) + "."
	}
	if recv := fn.Signature.Recv(); recv != nil {
		t := recv.Type()
		if pt, ok := t.(*types.Pointer); ok {
			t = pt.Elem()
		}
		if nt, ok := t.(*types.Named); ok {
			return pk + nt.Obj().Name() + "." + fn.Name()
		}
	}
	return pk + fn.Name()
}

// SyntaxFiles returns the parsed files of own packages.
func (p *Program) SyntaxFiles() []*ast.File {
	var out []*ast.File
	packages.Visit(p.Pkgs, nil, func(pk *packages.Package) {
		if strings.HasPrefix(pk.PkgPath, p.ModPrefix) {
			out = append(out, pk.Syntax...)
		}
	})
	return out
}

// OwnPackages lists own *packages.Package sorted by path.
func (p *Program) OwnPackages() []*packages.Package {
	var out []*packages.Package
	packages.Visit(p.Pkgs, nil, func(pk *packages.Package) {
		if strings.HasPrefix(pk.PkgPath, p.ModPrefix) {
			out = append(out, pk)
		}
	})
	sort.Slice(out, func(i, j int) bool { return out[i].PkgPath < out[j].PkgPath })
	return out
}

func (p *Program) Pos(pos token.Pos) string {
	if !pos.IsValid() {
		return "?"
	}
	ps := p.Fset.Position(pos)
	return fmt.Sprintf("%s:%d", strings.TrimPrefix(ps.Filename, "/repo/"), ps.Line)
}

// Closure returns the keys of every own function statically reachable from the roots: static callees,
// closures, go/defer targets, and (class-hierarchy style) the own implementations of invoked interface
// methods. Functions whose contract carries the flag given in skipFlag are not expanded.
func (p *Program) Closure(roots []string, skip func(key string) bool) []string {
	seen := map[string]bool{}
	var order []string
	var work []*ssa.Function
	add := func(fn *ssa.Function) {
		if fn == nil || len(fn.Blocks) == 0 {
			return
		}
		if fn.Pkg == nil && fn.Parent() == nil {
			return
		}
		pk := fn.Pkg
		if pk == nil {
			pk = fn.Parent().Pkg
		}
		if pk == nil || !strings.HasPrefix(pk.Pkg.Path(), p.ModPrefix) {
			return
		}
		k := p.FuncKey(fn)
		if seen[k] || p.Funcs[k] == nil {
			return
		}
		seen[k] = true
		order = append(order, k)
		if skip != nil && skip(k) {
			return
		}
		work = append(work, fn)
	}
	for _, r := range roots {
		add(p.Funcs[r])
	}
	// own concrete types, for interface dispatch
	var concrete []types.Type
	for _, pk := range p.OwnPackages() {
		sc := pk.Types.Scope()
		for _, name := range sc.Names() {
			if tn, ok := sc.Lookup(name).(*types.TypeName); ok {
				if _, isIface := tn.Type().Underlying().(*types.Interface); !isIface {
					concrete = append(concrete, tn.Type(), types.NewPointer(tn.Type()))
				}
			}
		}
	}
	for len(work) > 0 {
		fn := work[0]
		work = work[1:]
		for _, b := range fn.Blocks {
			for _, in := range b.Instrs {
				var c *ssa.CallCommon
				switch x := in.(type) {
				case *ssa.Call:
					c = x.Common()
				case *ssa.Go:
					c = x.Common()
				case *ssa.Defer:
					c = x.Common()
				case *ssa.MakeClosure:
					add(x.Fn.(*ssa.Function))
				}
				if c == nil {
					continue
				}
				if c.IsInvoke() {
					it, ok := c.Value.Type().Underlying().(*types.Interface)
					if !ok {
						continue
					}
					for _, t := range concrete {
						if types.Implements(t, it) {
							if m := p.Prog.LookupMethod(t, c.Method.Pkg(), c.Method.Name()); m != nil && m.Synthetic == "" {
								add(m)
							}
						}
					}
					continue
				}
				add(c.StaticCallee())
			}
		}
	}
	sort.Strings(order)
	return order
}
