// Package eng is the verification-condition generator ("govc") for Go code:
// it loads the real packages of /repo, builds go/ssa in NaiveForm, reads the
// contracts from the guarded comment-only files, symbolically executes every
// function under contract (loops cut at invariants, calls replaced by callee
// contracts) and discharges each named obligation with SMT solvers.
package eng

import (
	"fmt"
	"sync"
	"go/ast"
	"go/token"
	"go/types"
	"sort"
	"strings"

	"golang.org/x/tools/go/packages"
	"golang.org/x/tools/go/ssa"
	"golang.org/x/tools/go/ssa/ssautil"
)

// Program is a loaded module: type-checked syntax plus naive SSA.
type Program struct {
	Fset  *token.FileSet
	Pkgs  []*packages.Package
	Prog  *ssa.Program
	SPkgs []*ssa.Package
	// Funcs maps the canonical short name ("readPairs", "v0ProtocolMarshaler.readPairs",
	// "pkg.Func") to the SSA function, for functions of the module's own packages.
	Funcs map[string]*ssa.Function
	// All own functions including anonymous ones.
	All []*ssa.Function
	// ModPrefix is the import-path prefix of "own" packages.
	ModPrefix string
	Overlay   map[string][]byte
	scc       map[*ssa.Function]int
	sccSize   map[int]int
	selfRec   map[*ssa.Function]bool
	sccOnce   sync.Once
}

// Load type-checks patterns in dir with -tags verif and builds SSA.
func Load(dir string, modPrefix string, overlay map[string][]byte, patterns ...string) (*Program, error) {
	cfg := &packages.Config{
		Mode:       packages.LoadAllSyntax,
		Dir:        dir,
		BuildFlags: []string{"-tags=verif"},
		Overlay:    overlay,
		Env:        append(envBase(), "GOFLAGS=-mod=mod", "GOPROXY=off", "GOSUMDB=off", "GOTOOLCHAIN=local"),
	}
	pkgs, err := packages.Load(cfg, patterns...)
	if err != nil {
		return nil, err
	}
	var errs []string
	packages.Visit(pkgs, nil, func(p *packages.Package) {
		if strings.HasPrefix(p.PkgPath, modPrefix) {
			for _, e := range p.Errors {
				errs = append(errs, e.Error())
			}
		}
	})
	if len(errs) > 0 {
		return nil, fmt.Errorf("load errors: %s", strings.Join(errs, "; "))
	}
	prog, spkgs := ssautil.AllPackages(pkgs, ssa.NaiveForm|ssa.InstantiateGenerics)
	prog.Build()
	p := &Program{Fset: pkgs[0].Fset, Pkgs: pkgs, Prog: prog, SPkgs: spkgs, Funcs: map[string]*ssa.Function{}, ModPrefix: modPrefix, Overlay: overlay}
	for fn := range ssautil.AllFunctions(prog) {
		if fn.Pkg == nil || !strings.HasPrefix(fn.Pkg.Pkg.Path(), modPrefix) {
			continue
		}
		if fn.Synthetic != "" && fn.Syntax() == nil {
			continue
		}
		p.All = append(p.All, fn)
		p.Funcs[p.FuncKey(fn)] = fn
	}
	sort.Slice(p.All, func(i, j int) bool { return p.All[i].String() < p.All[j].String() })
	return p, nil
}

// PkgShort is the last path element of the package ("go" is renamed "lib").
func PkgShort(path string) string {
	if strings.HasSuffix(path, "/lib/go") {
		return "lib"
	}
	if i := strings.LastIndex(path, "/"); i >= 0 {
		return path[i+1:]
	}
	return path
}

// FuncKey is the stable name used in contracts and obligation names:
// pkg.Recv.Name or pkg.Name; anonymous functions are parent$k.
func (p *Program) FuncKey(fn *ssa.Function) string {
	if fn.Parent() != nil {
		return p.FuncKey(fn.Parent()) + "$" + strings.TrimPrefix(fn.Name()[strings.LastIndex(fn.Name(), "$"):], "$")
	}
	pk := ""
	if fn.Pkg != nil {
		pk = PkgShort(fn.Pkg.Pkg.Path()) + "."
	}
	if recv := fn.Signature.Recv(); recv != nil {
		t := recv.Type()
		if pt, ok := t.(*types.Pointer); ok {
			t = pt.Elem()
		}
		if nt, ok := t.(*types.Named); ok {
			return pk + nt.Obj().Name() + "." + fn.Name()
		}
	}
	return pk + fn.Name()
}

// SyntaxFiles returns the parsed files of own packages.
func (p *Program) SyntaxFiles() []*ast.File {
	var out []*ast.File
	packages.Visit(p.Pkgs, nil, func(pk *packages.Package) {
		if strings.HasPrefix(pk.PkgPath, p.ModPrefix) {
			out = append(out, pk.Syntax...)
		}
	})
	return out
}

// OwnPackages lists own *packages.Package sorted by path.
func (p *Program) OwnPackages() []*packages.Package {
	var out []*packages.Package
	packages.Visit(p.Pkgs, nil, func(pk *packages.Package) {
		if strings.HasPrefix(pk.PkgPath, p.ModPrefix) {
			out = append(out, pk)
		}
	})
	sort.Slice(out, func(i, j int) bool { return out[i].PkgPath < out[j].PkgPath })
	return out
}

func (p *Program) Pos(pos token.Pos) string {
	if !pos.IsValid() {
		return "?"
	}
	ps := p.Fset.Position(pos)
	return fmt.Sprintf("%s:%d", strings.TrimPrefix(ps.Filename, "/repo/"), ps.Line)
}

// Closure returns the keys of every own function statically reachable from the roots: static callees,
// closures, go/defer targets, and (class-hierarchy style) the own implementations of invoked interface
// methods. Functions whose contract carries the flag given in skipFlag are not expanded.
func (p *Program) Closure(roots []string, skip func(key string) bool) []string {
	seen := map[string]bool{}
	var order []string
	var work []*ssa.Function
	add := func(fn *ssa.Function) {
		if fn == nil || len(fn.Blocks) == 0 {
			return
		}
		if fn.Pkg == nil && fn.Parent() == nil {
			return
		}
		pk := fn.Pkg
		if pk == nil {
			pk = fn.Parent().Pkg
		}
		if pk == nil || !strings.HasPrefix(pk.Pkg.Path(), p.ModPrefix) {
			return
		}
		k := p.FuncKey(fn)
		if seen[k] || p.Funcs[k] == nil {
			return
		}
		seen[k] = true
		order = append(order, k)
		if skip != nil && skip(k) {
			return
		}
		work = append(work, fn)
	}
	for _, r := range roots {
		add(p.Funcs[r])
	}
	// own concrete types, for interface dispatch
	var concrete []types.Type
	for _, pk := range p.OwnPackages() {
		sc := pk.Types.Scope()
		for _, name := range sc.Names() {
			if tn, ok := sc.Lookup(name).(*types.TypeName); ok {
				if _, isIface := tn.Type().Underlying().(*types.Interface); !isIface {
					concrete = append(concrete, tn.Type(), types.NewPointer(tn.Type()))
				}
			}
		}
	}
	for len(work) > 0 {
		fn := work[0]
		work = work[1:]
		for _, b := range fn.Blocks {
			for _, in := range b.Instrs {
				var c *ssa.CallCommon
				switch x := in.(type) {
				case *ssa.Call:
					c = x.Common()
				case *ssa.Go:
					c = x.Common()
				case *ssa.Defer:
					c = x.Common()
				case *ssa.MakeClosure:
					add(x.Fn.(*ssa.Function))
				}
				if c == nil {
					continue
				}
				if c.IsInvoke() {
					it, ok := c.Value.Type().Underlying().(*types.Interface)
					if !ok {
						continue
					}
					for _, t := range concrete {
						if types.Implements(t, it) {
							if m := p.Prog.LookupMethod(t, c.Method.Pkg(), c.Method.Name()); m != nil && m.Synthetic == "" {
								add(m)
							}
						}
					}
					continue
				}
				add(c.StaticCallee())
			}
		}
	}
	sort.Strings(order)
	return order
}

// callees lists the module functions fn may call: static callees, closures it creates, and the
// module's implementations of invoked interface methods (class-hierarchy style).
func (p *Program) callees(fn *ssa.Function, concrete []types.Type) []*ssa.Function {
	var out []*ssa.Function
	own := func(f *ssa.Function) bool {
		if f == nil || len(f.Blocks) == 0 {
			return false
		}
		pk := f.Pkg
		if pk == nil && f.Parent() != nil {
			pk = f.Parent().Pkg
		}
		return pk != nil && strings.HasPrefix(pk.Pkg.Path(), p.ModPrefix)
	}
	for _, b := range fn.Blocks {
		for _, in := range b.Instrs {
			var c *ssa.CallCommon
			switch x := in.(type) {
			case *ssa.Call:
				c = x.Common()
			case *ssa.Go:
				c = x.Common()
			case *ssa.Defer:
				c = x.Common()
			case *ssa.MakeClosure:
				if f := x.Fn.(*ssa.Function); own(f) {
					out = append(out, f)
				}
			}
			if c == nil {
				continue
			}
			if c.IsInvoke() {
				if it, ok := c.Value.Type().Underlying().(*types.Interface); ok {
					for _, t := range concrete {
						if types.Implements(t, it) {
							if m := p.Prog.LookupMethod(t, c.Method.Pkg(), c.Method.Name()); own(m) {
								out = append(out, m)
							}
						}
					}
				}
				continue
			}
			if f := c.StaticCallee(); own(f) {
				out = append(out, f)
			}
		}
	}
	return out
}

func (p *Program) concreteTypes() []types.Type {
	var concrete []types.Type
	for _, pk := range p.OwnPackages() {
		sc := pk.Types.Scope()
		for _, name := range sc.Names() {
			if tn, ok := sc.Lookup(name).(*types.TypeName); ok {
				if _, isIface := tn.Type().Underlying().(*types.Interface); !isIface {
					concrete = append(concrete, tn.Type(), types.NewPointer(tn.Type()))
				}
			}
		}
	}
	return concrete
}

// computeSCC runs Tarjan over the module call graph (once).
func (p *Program) computeSCC() {
	p.sccOnce.Do(p.computeSCC1)
}

func (p *Program) computeSCC1() {
	p.scc = map[*ssa.Function]int{}
	p.sccSize = map[int]int{}
	p.selfRec = map[*ssa.Function]bool{}
	concrete := p.concreteTypes()
	adj := map[*ssa.Function][]*ssa.Function{}
	for _, fn := range p.All {
		adj[fn] = p.callees(fn, concrete)
		for _, c := range adj[fn] {
			if c == fn {
				p.selfRec[fn] = true
			}
		}
	}
	index := 0
	idx := map[*ssa.Function]int{}
	low := map[*ssa.Function]int{}
	on := map[*ssa.Function]bool{}
	var stack []*ssa.Function
	ncomp := 0
	var strong func(v *ssa.Function)
	strong = func(v *ssa.Function) {
		index++
		idx[v], low[v] = index, index
		stack = append(stack, v)
		on[v] = true
		for _, w := range adj[v] {
			if _, seen := idx[w]; !seen {
				if _, known := adj[w]; !known {
					adj[w] = nil
				}
				strong(w)
				if low[w] < low[v] {
					low[v] = low[w]
				}
			} else if on[w] && idx[w] < low[v] {
				low[v] = idx[w]
			}
		}
		if low[v] == idx[v] {
			ncomp++
			for {
				w := stack[len(stack)-1]
				stack = stack[:len(stack)-1]
				on[w] = false
				p.scc[w] = ncomp
				p.sccSize[ncomp]++
				if w == v {
					break
				}
			}
		}
	}
	for _, fn := range p.All {
		if _, seen := idx[fn]; !seen {
			strong(fn)
		}
	}
}

// Recursive: fn is on a cycle of the module call graph.
func (p *Program) Recursive(fn *ssa.Function) bool {
	p.computeSCC()
	return p.selfRec[fn] || p.sccSize[p.scc[fn]] > 1
}

// SameSCC: a call from a to b may be part of a recursion.
func (p *Program) SameSCC(a, b *ssa.Function) bool {
	p.computeSCC()
	if a == b {
		return true
	}
	ia, oka := p.scc[a]
	ib, okb := p.scc[b]
	return oka && okb && ia == ib && p.sccSize[ia] > 1
}

// RecursiveFuncs lists every function on a call-graph cycle.
func (p *Program) RecursiveFuncs() []*ssa.Function {
	p.computeSCC()
	var out []*ssa.Function
	for _, fn := range p.All {
		if p.Recursive(fn) {
			out = append(out, fn)
		}
	}
	return out
}
