#!/usr/bin/env python3
# Regenerates the generated parts of DESIGN.md (between the BEGIN/END GENERATED markers) from
# checks/*.json, manifest_meta.json, evidence/*.json, known_findings.txt and seeded/*/meta.json.
import json, os, re, glob

V = '/verif'
meta = json.load(open(V + '/manifest_meta.json'))

def ev(pid):
    try:
        return json.load(open('%s/evidence/%s.json' % (V, pid)))
    except Exception:
        return None

def per_property():
    out = []
    for pid in sorted(meta['checks']):
        c = meta['checks'][pid]
        spec = json.load(open('%s/checks/%s.json' % (V, pid)))
        e = ev(pid)
        title = ''
        for l in open(V + '/properties.jsonl'):
            d = json.loads(l)
            if d['id'] == pid:
                title = d['title']
        out.append('### %s — %s\n' % (pid, title))
        out.append('*What is proved.* ' + re.sub(r'\s*\d+ seeded mutants[^.]*\.', '', c['text']) + '\n')
        out.append('*Scope and limits.* ' + c['level_note'] + '\n')
        fns = [f['name'] for f in spec.get('functions', [])]
        if spec.get('closure'):
            fns.append('(+ every module function statically reachable from these: closure, recomputed each run)')
        if fns:
            out.append('*Functions named in the check* (%d): %s\n' % (len(fns), ', '.join('`%s`' % f for f in fns)))
        ans = {}
        for a in spec.get('analyses', []):
            ans[a['name']] = ans.get(a['name'], 0) + 1
        if ans:
            out.append('*Analyses (structural obligations)*: ' + ', '.join('%s×%d' % (k, v) if v > 1 else k for k, v in sorted(ans.items())) + '\n')
        if e:
            cv = e['coverage']
            out.append('*Last run on the committed tree*: %d obligations, %d discharged, back ends %s, solver time %d ms, %d functions under contract.\n'
                       % (cv['obligations'], cv['discharged'], '/'.join(sorted(cv.get('backends', {}).keys())) if isinstance(cv.get('backends'), dict) else cv.get('backends'), cv.get('solver_ms', 0), len(cv.get('functions_under_contract') or [])))
        if spec.get('assumptions'):
            out.append('*Assumptions left unchecked*:\n' + '\n'.join('- ' + a for a in spec['assumptions']) + '\n')
        if spec.get('undecided_clauses'):
            out.append('*Clauses of the statement not decided*:\n' + '\n'.join('- ' + a for a in spec['undecided_clauses']) + '\n')
        if spec.get('unregistered'):
            out.append('*Obligations generated but not registered (undecided, never reported as violations)*: ' + ', '.join('`%s`' % u for u in spec['unregistered']) + '\n')
        bn = spec.get('benign', [])
        if bn:
            out.append('*Benign corpus* (%d behaviour-preserving edits that must stay silent): ' % len(bn) + ', '.join(b['name'] for b in bn) + '\n')
        st = spec.get('selftest', [])
        if st:
            out.append('*Must-fail corpus* (%d mutants, thorough tier and `bin/govc selftest %s`): ' % (len(st), pid)
                       + '; '.join('%s → `%s`' % (m['name'], m['expect']) for m in st) + '\n')
    return '\n'.join(out)

def seeded():
    rows = ['| seed | property | change (by a sub-agent that saw only the property text) | breaks only when | confirmed (tests pass / demo fails with / passes without) | caught by |',
            '|---|---|---|---|---|---|']
    for p in sorted(glob.glob(V + '/seeded/*/meta.json')):
        m = json.load(open(p))
        name = os.path.basename(os.path.dirname(p))
        conf = m.get('confirmed', {})
        cf = 'yes' if ('ok' in conf.get('baseline_with_change', '') and 'ok' not in conf.get('demo_with_change', 'ok') and 'ok' in conf.get('demo_without_change', '')) else json.dumps(conf)
        res = []
        for k, v in sorted(m.get('check_results', {}).items()):
            if v['exit'] == 1:
                res.append('%s: %s' % (k, ', '.join('`%s`' % x.replace('obligation=', '') for x in v['violations'][:3]) + (' …' if len(v['violations']) > 3 else '')))
            else:
                res.append('%s: **not caught** (exit %d)' % (k, v['exit']))
        note = m.get('note', '')
        def cell(s, n):
            s = s.replace('|', '/').replace('\n', ' ')
            return s if len(s) <= n else s[:n - 1] + '…'
        rows.append('| %s | %s | %s | %s | %s | %s%s |' % (name, m['property'], cell(m['summary'], 420), cell(m['needs'], 300), cf, '; '.join(res) or 'not run', (' — ' + note) if note else ''))
    return '\n'.join(rows)

def findings():
    rows = []
    for l in open(V + '/known_findings.txt'):
        if l.startswith('fixed:') or l.startswith('known:'):
            rows.append('- `' + l.split()[0] + '` ' + l.split(' ', 1)[1].strip())
    return '\n'.join(rows)

gen = {'PER-PROPERTY': per_property(), 'SEEDED': seeded(), 'FINDINGS': findings()}
s = open(V + '/DESIGN.md').read()
for k, v in gen.items():
    s = re.sub(r'(<!-- BEGIN GENERATED %s -->\n).*?(<!-- END GENERATED %s -->)' % (k, k), lambda m: m.group(1) + v + '\n' + m.group(2), s, flags=re.S)
open(V + '/DESIGN.md', 'w').write(s)
print('DESIGN.md regenerated')
